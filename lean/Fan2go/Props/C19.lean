/-
  C19 "External commands cannot hang or crash fan2go".

  Model: `safeCmdExecution` (= util.SafeCmdExecution, internal/util/exec.go AFTER the fixes 8c639fb and
  4d252cb) over the abstract process behaviour `Beh`; callers `cmdUserValue` / `cmdUserSet`
  (sensors/cmd.go, fans/cmd.go). Tied to the real code by stream `ex` (`ex.run`, `ex.user`: real scripts,
  real processes, wall clock).

  Verdict of the proofs: the property HOLDS at full strength (`C19_holds`) for every state of the executable
  file, every behaviour of the command and every timeout, with no side hypothesis.

  History (pre-fix code, all replayed on the real code at the time, then fixed):
  1. start error (`ex.run beh=notexec|badformat|vanish`; `ex.perm owner=0 group=0 mode=644 link=0`):
     unchecked `err.(*exec.ExitError)` on a `*fs.PathError` → `res=panic:typeassert`;  now `res=err`.
  2. grandchild holding stdout (`ex.run beh=grandchild timeout_ms=300`): no `WaitDelay`, `Output()` waited
     for the pipe → `res=blocked within=0`;  now `res=err within=1` (exec.ErrWaitDelay after 200 ms).
  3. plain `sleep 30` as last line of a `/bin/sh` script (`ex.run beh=sleep timeout_ms=200`): shell killed,
     orphaned `sleep` holds the pipe → `res=blocked within=0`;  now `res=err within=1` (timeout + 200 ms).
  5. `os.Stat` failing with an error other than not-exist (file swapped for a symlink loop between `EvalSymlinks`
     and `Stat`): nil `FileInfo` dereferenced → panic;  now an error (`C19_stat_error_is_error`, fix fc39d65).
  4. pipe released after the deadline (`ex.run beh=grandchild timeout_ms=300 hold_ms=1300`): returned
     `("", nil)` late → `res=ok:0: within=0`;  now `res=err within=1`.
-/
import Fan2go.Proofs.Exec
namespace Fan2go

/-- the "small margin" of the property statement, in ms -/
def c19MarginMs : Nat := 500

/-- the margin covers the WaitDelay constant of the code -/
theorem cmdWaitDelay_le_margin : cmdWaitDelayMs ≤ c19MarginMs := by decide

/-- The conclusion of C19 for one call: the result is an error or the command's trimmed output,
    it is not a panic, and the call is bounded by `timeout + margin`. -/
def C19_ok (beh : Beh) (timeout : Nat) (o : ExecOut) : Prop :=
  ((∃ e, o.res = .ok (.error e)) ∨ (∃ out, beh.stdout = some out ∧ o.res = .ok (.ok (trimNl out))))
  ∧ o.res.isPanic = false
  ∧ ∃ b, o.boundedBy = some b ∧ b ≤ timeout + c19MarginMs

/-- **C19 at full strength**: for every state of the executable file (short of the stat-error branch),
    every behaviour of the command – cannot be started, any exit code, killed, ignores the deadline,
    leaves descendants holding its output for any time or for ever – and every timeout. -/
def C19_statement : Prop :=
  ∀ (ev : EvalRes) (st : StatRes) (beh : Beh) (timeout : Nat),
    C19_ok beh timeout (safeCmdExecution ev st beh timeout)

/-- a root-owned 0755 executable: passes the permission check -/
def c19GoodFile : StatRes := .ok ⟨0, 0, 0o755⟩

/-- after a passed check the call is bounded by `timeout + cmdWaitDelay`, never panics, and returns an
    error or the trimmed output -/
theorem runCmd_ok (beh : Beh) (timeout : Nat) :
    ((∃ e, (runCmd beh timeout).res = .ok (.error e)) ∨
      (∃ out, beh.stdout = some out ∧ (runCmd beh timeout).res = .ok (.ok (trimNl out))))
    ∧ (runCmd beh timeout).res.isPanic = false
    ∧ ∃ b, (runCmd beh timeout).boundedBy = some b ∧ b ≤ timeout + cmdWaitDelayMs := by
  unfold runCmd
  by_cases ht : timeout = 0
  · simp only [ht, if_true]
    exact ⟨Or.inl ⟨_, rfl⟩, rfl, 0, rfl, Nat.zero_le _⟩
  · simp only [ht, if_false]
    match beh with
    | .startError => exact ⟨Or.inl ⟨_, rfl⟩, rfl, 0, rfl, Nat.zero_le _⟩
    | .exits code out =>
      by_cases hc : code = 0
      · subst hc
        exact ⟨Or.inr ⟨out, rfl, rfl⟩, rfl, timeout, rfl, Nat.le_add_right _ _⟩
      · simp only [hc, if_false]
        exact ⟨Or.inl ⟨_, rfl⟩, rfl, timeout, rfl, Nat.le_add_right _ _⟩
    | .killedBySignal _ => exact ⟨Or.inl ⟨_, rfl⟩, rfl, timeout, rfl, Nat.le_add_right _ _⟩
    | .outlivesDeadline none => exact ⟨Or.inl ⟨_, rfl⟩, rfl, timeout, rfl, Nat.le_add_right _ _⟩
    | .outlivesDeadline (some (.ms h)) =>
      exact ⟨Or.inl ⟨_, rfl⟩, rfl, _, rfl, Nat.min_le_right _ _⟩
    | .outlivesDeadline (some .forever) => exact ⟨Or.inl ⟨_, rfl⟩, rfl, _, rfl, Nat.le_refl _⟩
    | .grandchildHoldsStdout out (.ms h) =>
      by_cases hw : h < cmdWaitDelayMs
      · by_cases hh : h < timeout
        · simp only [hw, hh, if_true]
          exact ⟨Or.inr ⟨out, rfl, rfl⟩, rfl, h, rfl, by omega⟩
        · simp only [hw, hh, if_true, if_false]
          exact ⟨Or.inl ⟨_, rfl⟩, rfl, h, rfl, by omega⟩
      · simp only [hw, if_false]
        exact ⟨Or.inl ⟨_, rfl⟩, rfl, _, rfl, Nat.le_add_left _ _⟩
    | .grandchildHoldsStdout out .forever =>
      exact ⟨Or.inl ⟨_, rfl⟩, rfl, _, rfl, Nat.le_add_left _ _⟩

/-- the permission check gives an error value or passes -/
theorem checkPerm_cases (ev : EvalRes) (st : StatRes) :
    (∃ e, checkPerm ev st = .ok (.error e)) ∨ checkPerm ev st = .ok (.ok ()) := by
  cases ev with
  | err => exact Or.inl ⟨_, rfl⟩
  | resolved =>
    cases st with
    | notExist => exact Or.inl ⟨_, rfl⟩
    | otherErr => exact Or.inl ⟨_, rfl⟩
    | ok s =>
      rcases checkPerm_ok_cases s with h | h
      · exact Or.inr h
      · exact Or.inl h

/-- the same with the sharp bound `timeout + cmdWaitDelay` (200 ms) instead of the margin -/
theorem C19_holds_tight (ev : EvalRes) (st : StatRes) (beh : Beh) (timeout : Nat) :
    ((∃ e, (safeCmdExecution ev st beh timeout).res = .ok (.error e)) ∨
      (∃ out, beh.stdout = some out ∧ (safeCmdExecution ev st beh timeout).res = .ok (.ok (trimNl out))))
    ∧ (safeCmdExecution ev st beh timeout).res.isPanic = false
    ∧ ∃ b, (safeCmdExecution ev st beh timeout).boundedBy = some b ∧ b ≤ timeout + cmdWaitDelayMs := by
  unfold safeCmdExecution
  rcases checkPerm_cases ev st with ⟨e, he⟩ | hp
  · rw [he]
    exact ⟨Or.inl ⟨_, rfl⟩, rfl, 0, rfl, Nat.zero_le _⟩
  · rw [hp]
    exact runCmd_ok beh timeout

/-- **C19 holds** for the code that exists now. -/
theorem C19_holds : C19_statement := by
  intro ev st beh timeout
  obtain ⟨h1, h2, b, hb, hle⟩ := C19_holds_tight ev st beh timeout
  exact ⟨h1, h2, b, hb, Nat.le_trans hle (Nat.add_le_add_left cmdWaitDelay_le_margin _)⟩

/-! ### the former residual branch -/

/-- **Former residual – `os.Stat` fails with something else than not-exist** (the file was swapped for a symlink loop
    between `EvalSymlinks` and `Stat`; replayed on the real code by a rename race: panic after 137 calls): before fix
    fc39d65 `info` was nil and `info.Sys()` panicked; now the error is returned, nothing is run. -/
theorem C19_stat_error_is_error (beh : Beh) (t : Nat) :
    safeCmdExecution .resolved .otherErr beh t
      = { res := .ok (.error "cannot execute: stat"), attempted := false, ran := false, boundedBy := some 0 } := by
  simp [safeCmdExecution, checkPerm, safeCmd]

/-! ### the former witnesses, now harmless -/

/-- former witness 1: a command that cannot be started gives an error, at once, nothing is run -/
theorem C19_start_error_is_error :
    safeCmdExecution .resolved c19GoodFile .startError 2000
      = { res := .ok (.error "fork/exec"), attempted := true, ran := false, boundedBy := some 0 } := by decide

/-- former witness 2: a grandchild holding stdout for ever costs `cmdWaitDelay`, whatever the timeout -/
theorem C19_grandchild_is_bounded (t : Nat) (ht : t ≠ 0) :
    (safeCmdExecution .resolved c19GoodFile (.grandchildHoldsStdout "hi\n" .forever) t).boundedBy
      = some cmdWaitDelayMs := by
  have hp : checkPerm .resolved c19GoodFile = .ok (.ok ()) := by decide
  simp [safeCmdExecution, hp, safeCmd, runCmd, ht]

/-- former witness 3: the orphaned `sleep 30` of a killed shell costs `timeout + cmdWaitDelay` -/
theorem C19_shell_sleep_is_bounded :
    (safeCmdExecution .resolved c19GoodFile (.outlivesDeadline (some (.ms 30000))) 2000).boundedBy = some 2200 := by
  decide

/-- former witness 4: a release after the deadline is an error, no longer `("", nil)` -/
theorem C19_late_release_is_error :
    (safeCmdExecution .resolved c19GoodFile (.grandchildHoldsStdout "hi\n" (.ms 4000)) 2000).res
      = .ok (.error "exec: WaitDelay expired before I/O complete") := by decide

/-- the price of the bound: a command that exits 0 but leaves a holder of its stdout for `cmdWaitDelay` or
    longer is reported as an ERROR even when everything happens well before the deadline
    (real code: `ex.run beh=grandchild timeout_ms=1000 hold_ms=500` → `res=err within=1`, whereas
    `hold_ms=100` → `res=ok:2:6869 within=1`) -/
theorem C19_holder_past_waitdelay_is_error (out : String) (h t : Nat) (ht : t ≠ 0) (hh : cmdWaitDelayMs ≤ h) :
    ∃ e, (safeCmdExecution .resolved c19GoodFile (.grandchildHoldsStdout out (.ms h)) t).res = .ok (.error e) := by
  have hp : checkPerm .resolved c19GoodFile = .ok (.ok ()) := by decide
  have : ¬ h < cmdWaitDelayMs := by omega
  exact ⟨"exec: WaitDelay expired before I/O complete",
    by simp [safeCmdExecution, hp, safeCmd, runCmd, ht, this]⟩

/-! ### callers -/

/-- a panic inside `SafeCmdExecution` would not be recovered by any caller (it would reach the sensor
    monitor / the fan controller goroutine) – which is why `C19_callers_never_panic` matters. The only
    panic left in the model is the stat-error branch. (Pre-fix real code: `ex.user kind=sensor beh=notexec`
    → `res=panic:typeassert`; now `res=err`.) -/
theorem C19_panic_reaches_callers {α : Type} (parse : String → Option α) (o : ExecOut) (site : String)
    (h : o.res = .panic site) :
    cmdUserValue parse o = .panic site ∧ cmdUserSet o = .panic site := by
  simp [cmdUserValue, cmdUserSet, h]

/-- callers turn every non-panicking outcome into a value or an error -/
theorem C19_callers_total {α : Type} (parse : String → Option α) (o : ExecOut)
    (h : o.res.isPanic = false) (h' : ∀ e, o.res ≠ .err e) :
    (∃ v, cmdUserValue parse o = .ok (.ok v)) ∨ (∃ e, cmdUserValue parse o = .ok (.error e)) := by
  unfold cmdUserValue
  match hr : o.res with
  | .ok (.ok s) =>
    cases hp : parse s with
    | some v => exact Or.inl ⟨v, by simp [hp]⟩
    | none => exact Or.inr ⟨"parse", by simp [hp]⟩
  | .ok (.error e) => exact Or.inr ⟨e, rfl⟩
  | .err e => exact absurd hr (h' e)
  | .panic s => rw [hr] at h; simp [Res.isPanic] at h

/-- **Callers never see a panic**, for ANY behaviour of the command and any timeout: `GetValue` /
    `GetPwm` / `GetRpm` return a value or an error, `SetPwm` succeeds or returns an error. -/
theorem C19_callers_never_panic {α : Type} (parse : String → Option α)
    (ev : EvalRes) (st : StatRes) (beh : Beh) (timeout : Nat) :
    ((∃ v, cmdUserValue parse (safeCmdExecution ev st beh timeout) = .ok (.ok v)) ∨
      (∃ e, cmdUserValue parse (safeCmdExecution ev st beh timeout) = .ok (.error e))) ∧
    (cmdUserSet (safeCmdExecution ev st beh timeout) = .ok (.ok ()) ∨
      (∃ e, cmdUserSet (safeCmdExecution ev st beh timeout) = .ok (.error e))) := by
  obtain ⟨h1, h2, _⟩ := C19_holds_tight ev st beh timeout
  have hne : ∀ e, (safeCmdExecution ev st beh timeout).res ≠ .err e := by
    intro e he
    rcases h1 with ⟨e', h'⟩ | ⟨out, _, h'⟩ <;> rw [h'] at he <;> simp at he
  refine ⟨C19_callers_total parse _ h2 hne, ?_⟩
  unfold cmdUserSet
  rcases h1 with ⟨e', h'⟩ | ⟨out, _, h'⟩
  · rw [h']; exact Or.inr ⟨e', rfl⟩
  · rw [h']; exact Or.inl rfl

/-! ### the trimmed text -/

/-- **C19, trim.** A returned text is the command's stdout with leading/trailing `'\n'` removed. -/
theorem C19_trim (ev : EvalRes) (st : StatRes) (beh : Beh) (timeout : Nat) (s : String)
    (h : (safeCmdExecution ev st beh timeout).res = .ok (.ok s)) :
    ∃ out, beh.stdout = some out ∧ s = trimNl out := by
  rcases (C19_holds_tight ev st beh timeout).1 with ⟨e, he⟩ | ⟨out, ho, hr⟩
  · rw [he] at h; simp at h
  · rw [hr] at h
    exact ⟨out, ho, by simpa using h.symm⟩

/-- Trim is idempotent -/
theorem C19_trim_idem (s : String) : trimNl (trimNl s) = trimNl s := trimNl_idem s

/-- Trim removes newlines at the two ends only: the input is `newlines ++ Trim input ++ newlines`,
    and the result neither starts nor ends with a newline. -/
theorem C19_trim_spec (s : String) :
    (∃ pre post, (∀ c ∈ pre, c = '\n') ∧ (∀ c ∈ post, c = '\n') ∧
        s.toList = pre ++ (trimNl s).toList ++ post) ∧
    (trimNl s).toList.head? ≠ some '\n' ∧ (trimNl s).toList.getLast? ≠ some '\n' := by
  rw [trimNl_toList]
  exact ⟨trimNlChars_split _, trimNlChars_head _, trimNlChars_last _⟩

/-- inner newlines (and every other character, blanks and tabs included) survive: a text that neither
    starts nor ends with `'\n'` is returned as is, whatever is in between -/
theorem C19_trim_inner (a b : Char) (mid : List Char) (ha : a ≠ '\n') (hb : b ≠ '\n') :
    trimNlChars (a :: (mid ++ [b])) = a :: (mid ++ [b]) := by
  apply trimNlChars_fixed
  · simpa using ha
  · rw [← List.cons_append, List.getLast?_append]
    simpa using hb

/-- and Trim is the ONLY such decomposition -/
theorem C19_trim_unique {pre m post : List Char}
    (hpre : ∀ c ∈ pre, c = '\n') (hpost : ∀ c ∈ post, c = '\n')
    (hhead : m.head? ≠ some '\n') (hlast : m.getLast? ≠ some '\n') :
    trimNlChars (pre ++ m ++ post) = m := trimNlChars_unique hpre hpost hhead hlast

/-! ### non-vacuity -/

example : C19_ok (.exits 0 "42\n") 2000 (safeCmdExecution .resolved c19GoodFile (.exits 0 "42\n") 2000) :=
  C19_holds _ _ _ _

example : C19_ok .startError 2000 (safeCmdExecution .resolved .otherErr .startError 2000) := C19_holds _ _ _ _

example : (safeCmdExecution .resolved c19GoodFile (.exits 0 "\n\n abc\n\nx y\t\n\n") 2000).res
    = .ok (.ok " abc\n\nx y\t") := by decide

example : (safeCmdExecution .resolved c19GoodFile (.exits 3 "55\n") 2000).res = .ok (.error "exit status") := by
  decide

example : (safeCmdExecution .resolved c19GoodFile (.outlivesDeadline none) 200)
    = { res := .ok (.error "signal: killed"), attempted := true, ran := true, boundedBy := some 200 } := by
  decide

/-- a holder that lets go quickly is harmless: the text is returned -/
example : (safeCmdExecution .resolved c19GoodFile (.grandchildHoldsStdout "hi\n" (.ms 100)) 1000)
    = { res := .ok (.ok "hi"), attempted := true, ran := true, boundedBy := some 100 } := by decide

/-- an expired context starts nothing, not even a command that could not be started -/
example : (safeCmdExecution .resolved c19GoodFile .startError 0).res = .ok (.error "context deadline exceeded") := by
  decide

example : trimNl "\n\n" = "" ∧ trimNl "" = "" ∧ trimNl "7\n" = "7" ∧ trimNl "a\nb" = "a\nb" := by decide

#print axioms C19_holds
#print axioms C19_holds_tight
#print axioms C19_stat_error_is_error
#print axioms C19_start_error_is_error
#print axioms C19_grandchild_is_bounded
#print axioms C19_shell_sleep_is_bounded
#print axioms C19_late_release_is_error
#print axioms C19_holder_past_waitdelay_is_error
#print axioms C19_panic_reaches_callers
#print axioms C19_callers_total
#print axioms C19_callers_never_panic
#print axioms C19_trim
#print axioms C19_trim_idem
#print axioms C19_trim_spec
#print axioms C19_trim_inner
#print axioms C19_trim_unique

end Fan2go
