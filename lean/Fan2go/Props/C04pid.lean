/-
  C04 (PID part)  Constant curve value: the request of the DEFAULT PID algorithm settles
       (internal/util/pid.go `Loop`, internal/control_loop/pid.go `Cycle`,
        internal/controller/controller.go:436-461; models: `pidLoop`, `pidCycle`, `rescale`, `clamp255`)

  The closed loop the controller wires, on the identity range (fan min 0, max 255, `rescale t 0 255 = t`):
      `pidClosed indef c (st, x) now = (st', rescale (clamp255 (pidCycle st c x now).2) 0 255)`
  i.e. the algorithm is called with the previous REQUEST `x` as `current`; `pidRun` iterates it over a
  sequence of curve values and clock readings, `pidRunC` with a constant curve value and tick.
  Gains: `F64.ofRat (3/10)`, `(1/50)`, `(1/200)` (the binary64 values of 0.3, 0.02, 0.005).
  All theorems are about the binary64 model (every rounding of every operation included) and hold for
  every `indef` (the implementation-defined `int(NaN/Inf/huge)`).

  RESULT (what is proved, for which tick periods)
  (1) `C04_pid_cycle_exact`, `C04_pid_round_exact` – ticks 50 ms..2 s, |integral| ≤ 2^21: one cycle equals
      the exact rational recurrence  x' = clampRound(x + p·e + i·(I + e·t) + d·(e − e_prev)/t)  up to
      2^-31 before rounding (integral: 2^-30); the integer request can differ from the exact one only
      if the exact value is within 2^-31 of a half-integer.                                  – PROVED
  (2) `C04_pid_no_windup` – every sequence of curve values, every sequence of ticks in 50 ms..2 s, from a
      fresh loop: all operands stay finite, |integral| ≤ 20000 for ever, and an integral beyond
      ±19200 forces the request to the matching end of the scale.                            – PROVED
  (5) `C04_pid_monotone_far` – ticks 50 ms..2 s: error ≥ 175 and integral ≥ 0 ⇒ the request rises
      (mirror: falls); general form `C04_pid_move_toward`.                                   – PROVED
  (3) `C04_pid_rest_forever` – ticks 50 ms..2 s: request = c and |i·I| (plus the derivative kick of the
      last move) below 1/2 ⇒ request = c for ever, integral frozen.
      `C04_pid_settles_from_Q` – ticks 50 ms..2 s: from the quasi-static region `Qpos`/`Qneg`
      (1 ≤ |e|, |e|·t ≤ 12.5, last move 0 or 1 toward c, PI signal inside its band) the request moves in
      single steps monotonically to c, reaches it within `n` cycles (`PhiN ≤ n·eta`) and rests. – PROVED
  (4) `C04_pid_settles_fresh_200ms` – tick 200 ms (the daemon default), fresh loop, EVERY curve value and
      EVERY first request in 0..255: the request equals c at every cycle from the 6820-th on.
      (validated simulation: 20 cycles of an integer model with branching at rounding ties, kernel
      evaluated, then `C04_pid_settles_from_Q`).                                            – PROVED
  (6) `C04_pid_suspend_windup` – one clock step of 3 h with error 100, then ticks 50 ms..2 s: the next
      1001 requests are all 255 whatever the curve value – why the property restricts ticks.  – PROVED
  NOT proved: settling from an ARBITRARY state of the invariant region (history independence) and a
  settling bound for tick periods other than 200 ms from outside `Qpos`/`Qneg`.
-/
import Fan2go.Proofs.PidSimAll
import Fan2go.Proofs.PidWindup
namespace Fan2go
open F64

/-! ### (1) one cycle = exact recurrence + tiny error -/

/-- One cycle on finite operands. `clampRound s = int(math.Round(Coerce(s, 0, 255)))`. -/
theorem C04_pid_cycle_exact (indef : Int) (st : PidSt) (c x now last ep : Int) (I : ℚ)
    (hp : st.p = ofRat (3 / 10)) (hi : st.i = ofRat (1 / 50)) (hd : st.d = ofRat (1 / 200))
    (he : st.error = fin (ep : ℚ)) (hI : st.integral = fin I) (hl : st.lastTime = some last)
    (hc0 : 0 ≤ c) (hc1 : c ≤ 255) (hx0 : 0 ≤ x) (hx1 : x ≤ 255) (hep : |ep| ≤ 255)
    (hIb : |I| ≤ 2 ^ 21) (ht0 : 50000000 ≤ now - last) (ht1 : now - last ≤ 2000000000) :
    ∃ t J S : ℚ,
      secondsOfNanos (now - last) = fin t ∧ |t - ((now - last : Int) : ℚ) / 1000000000| ≤ 1 / 2 ^ 50 ∧
      pidCycle indef st c x now =
        ({ st with integral := fin J, error := fin ((c - x : Int) : ℚ), lastTime := some now },
          clampRound S) ∧
      |J - (I + ((c - x : Int) : ℚ) * t)| ≤ 1 / 2 ^ 30 ∧
      |S - ((x : ℚ) + (3 / 10 * ((c - x : Int) : ℚ) + 1 / 50 * (I + ((c - x : Int) : ℚ) * t)
              + 1 / 200 * ((((c - x : Int) : ℚ) - (ep : ℚ)) / t)))| ≤ 1 / 2 ^ 31 := by
  obtain ⟨hsec, htick, hclose⟩ := tickOk_of_seconds ht0 ht1
  have hcyc := cycOk_of hc0 hc1 hx0 hx1 hep hIb (by linarith [htick.t0]) htick.t1
  exact ⟨_, _, _, hsec, hclose,
    pid_cycle_fin indef st c x now last ep I _ hp hi hd he hI hl hsec hcyc, pidJ_close hcyc,
    pidS_close hcyc⟩

/-- … hence the request is the rounding of the EXACT value unless that value is within `2^-31` of a
    half-integer. -/
theorem C04_pid_round_exact (indef : Int) (st : PidSt) (c x now last ep : Int) (I : ℚ)
    (hp : st.p = ofRat (3 / 10)) (hi : st.i = ofRat (1 / 50)) (hd : st.d = ofRat (1 / 200))
    (he : st.error = fin (ep : ℚ)) (hI : st.integral = fin I) (hl : st.lastTime = some last)
    (hc0 : 0 ≤ c) (hc1 : c ≤ 255) (hx0 : 0 ≤ x) (hx1 : x ≤ 255) (hep : |ep| ≤ 255)
    (hIb : |I| ≤ 2 ^ 21) (ht0 : 50000000 ≤ now - last) (ht1 : now - last ≤ 2000000000)
    (hfar : ∀ k : Int, 1 / 2 ^ 31 <
      |(x : ℚ) + uExact ((c - x : Int) : ℚ) ep I (secOf (now - last)) - ((k : ℚ) + 1 / 2)|) :
    (pidCycle indef st c x now).2
      = clampRound ((x : ℚ) + uExact ((c - x : Int) : ℚ) ep I (secOf (now - last))) := by
  obtain ⟨hsec, htick, _⟩ := tickOk_of_seconds ht0 ht1
  have hcyc := cycOk_of hc0 hc1 hx0 hx1 hep hIb (by linarith [htick.t0]) htick.t1
  rw [pid_cycle_fin indef st c x now last ep I _ hp hi hd he hI hl hsec hcyc]
  exact clampRound_stable (pidS_close hcyc) hfar

example (indef : Int) :
    ∃ t S : ℚ, secondsOfNanos 200000000 = fin t ∧
      (pidCycle indef (PidSt.mk (ofRat (3 / 10)) (ofRat (1 / 50)) (ofRat (1 / 200))
          (fin ((10 : Int) : ℚ)) (fin 0) (some 0)) 100 90 200000000).2
        = clampRound S ∧
      |S - ((90 : ℚ) + (3 / 10 * 10 + 1 / 50 * (0 + 10 * t) + 1 / 200 * ((10 - 10) / t)))| ≤ 1 / 2 ^ 31 := by
  obtain ⟨t, J, S, h1, _, h3, _, h5⟩ := C04_pid_cycle_exact indef
    (PidSt.mk (ofRat (3 / 10)) (ofRat (1 / 50)) (ofRat (1 / 200)) (fin ((10 : Int) : ℚ)) (fin 0)
      (some 0)) 100 90 200000000 0 10 0
    rfl rfl rfl rfl rfl rfl (by norm_num) (by norm_num) (by norm_num) (by norm_num) (by norm_num)
    (by norm_num) (by norm_num) (by norm_num)
  refine ⟨t, S, by simpa using h1, by rw [h3], ?_⟩
  norm_num at h5 ⊢
  exact h5

/-! ### (2) no wind-up on the identity range -/

/-- From a fresh loop (cycle 0 = first call, curve value `c0`, first request `x0`), for EVERY sequence
    of curve values and EVERY sequence of tick periods in 50 ms..2 s: at every cycle the memory is
    finite with the default gains, the request is in 0..255, the integral is bounded by 20000, and an
    integral beyond ±19200 comes with a request at the matching end of the scale (so that the error can
    only drive it back). -/
theorem C04_pid_no_windup (indef : Int) (c0 x0 : Int) (cs : Nat → Int) (nows : Nat → Int)
    (hc0 : 0 ≤ c0 ∧ c0 ≤ 255) (hx0 : 0 ≤ x0 ∧ x0 ≤ 255) (hcs : ∀ k, 0 ≤ cs k ∧ cs k ≤ 255)
    (hticks : ∀ k, 50000000 ≤ nows (k + 1) - nows k ∧ nows (k + 1) - nows k ≤ 2000000000) (k : Nat) :
    let s := pidRun indef cs nows (pidClosed indef c0 (pidFresh, x0) (nows 0)) k
    s.1.integral = fin (intOf s.1) ∧ s.1.error = fin ((errOf s.1 : Int) : ℚ) ∧
    s.1.lastTime = some (nows k) ∧ 0 ≤ s.2 ∧ s.2 ≤ 255 ∧ |intOf s.1| ≤ 20000 ∧
    (19200 ≤ intOf s.1 → s.2 = 255) ∧ (intOf s.1 ≤ -19200 → s.2 = 0) := by
  intro s
  have r0 := (pidFresh_first indef (now := nows 0) hc0.1 hc0.2 hx0.1 hx0.2).1
  have r := pidRun_runSt indef cs nows _ r0 hcs hticks k
  exact ⟨r.good.integral, r.good.error, r.good.lastTime, r.x0, r.x1, r.inv.1, r.inv.2.1, r.inv.2.2⟩

example (indef : Int) (k : Nat) :
    |intOf (pidRun indef (fun j => if j % 2 = 0 then 255 else 0) (fun j => 1000000000 * j)
      (pidClosed indef 0 (pidFresh, 128) 0) k).1| ≤ 20000 :=
  (C04_pid_no_windup indef 0 128 _ (fun j => 1000000000 * (j : Int)) (by norm_num) (by norm_num)
    (fun j => by split_ifs <;> norm_num)
    (fun j => by constructor <;> push_cast <;> linarith) k).2.2.2.2.2.1

/-! ### (5) moving toward the curve value -/

/-- General form: if the exact output is at least `n − 1/2 + 2^-30` the request rises by at least `n`
    (and symmetrically falls). -/
theorem C04_pid_move_toward (indef : Int) {s : PidSt × Int} {last c now : Int} (r : RunSt s last)
    (hc0 : 0 ≤ c) (hc1 : c ≤ 255) (h0 : 50000000 ≤ now - last) (h1 : now - last ≤ 2000000000)
    (n : Int) (hn : 1 ≤ n) :
    (s.2 + n ≤ 255 → (n : ℚ) - 1 / 2 + 1 / 2 ^ 30
        ≤ uExact ((c - s.2 : Int) : ℚ) (errOf s.1) (intOf s.1) (secOf (now - last)) →
      s.2 + n ≤ (pidClosed indef c s now).2) ∧
    (0 ≤ s.2 - n → uExact ((c - s.2 : Int) : ℚ) (errOf s.1) (intOf s.1) (secOf (now - last))
        ≤ -((n : ℚ) - 1 / 2 + 1 / 2 ^ 30) →
      (pidClosed indef c s now).2 ≤ s.2 - n) := by
  obtain ⟨_, _, _, ha⟩ := run_step indef r hc0 hc1 h0 h1
  exact ⟨fun hx hu => ha.move_up n hn r.x0 hx hu, fun hx hu => ha.move_dn n hn r.x1 hx hu⟩

/-- Far below the curve value (error ≥ 175) with a non-negative integral the request rises, whatever
    the previous error was; far above (error ≤ −175) with a non-positive integral it falls. -/
theorem C04_pid_monotone_far (indef : Int) {s : PidSt × Int} {last c now : Int} (r : RunSt s last)
    (hc0 : 0 ≤ c) (hc1 : c ≤ 255) (h0 : 50000000 ≤ now - last) (h1 : now - last ≤ 2000000000) :
    (175 ≤ c - s.2 → 0 ≤ intOf s.1 → s.2 < (pidClosed indef c s now).2) ∧
    (c - s.2 ≤ -175 → intOf s.1 ≤ 0 → (pidClosed indef c s now).2 < s.2) := by
  obtain ⟨_, _, ht, ha⟩ := run_step indef r hc0 hc1 h0 h1
  exact ⟨fun hf hI => ha.far_up ht hc1 r.x0 r.ep hf hI, fun hf hI => ha.far_dn ht hc0 r.x1 r.ep hf hI⟩

example (indef : Int) :
    (10 : Int) < (pidClosed indef 200 (pidClosed indef 200 (pidFresh, 10) 0) 200000000).2 := by
  obtain ⟨r, hx, hI, _⟩ := pidFresh_first indef (c := 200) (x := 10) (now := 0) (by norm_num)
    (by norm_num) (by norm_num) (by norm_num)
  have := (C04_pid_monotone_far indef (c := 200) (now := 200000000) r (by norm_num) (by norm_num)
    (by norm_num) (by norm_num)).1 (by rw [hx]; norm_num) (by rw [hI])
  rwa [hx] at this

/-! ### (3) the rest region and the quasi-static region -/

/-- Rest: the request equals the curve value and the integral term (now: together with the
    derivative kick of the last move) is below 1/2 − 2^-29 in the directions in which the request
    could still move. Then the request is `c` for ever and the integral never changes. -/
theorem C04_pid_rest_forever (indef : Int) {c dt now0 : Int} {s0 : PidSt × Int} (r0 : RunSt s0 now0)
    (hc0 : 0 ≤ c) (hc1 : c ≤ 255) (h0 : 50000000 ≤ dt) (h1 : dt ≤ 2000000000) (k : Nat)
    (hx : (pidRunC indef c dt now0 s0 k).2 = c)
    (hnow : |1 / 50 * intOf (pidRunC indef c dt now0 s0 k).1
        + 1 / 200 * ((0 - (errOf (pidRunC indef c dt now0 s0 k).1 : ℚ)) / secOf dt)| ≤ 1 / 2 - 1 / 2 ^ 29)
    (hlater : |1 / 50 * intOf (pidRunC indef c dt now0 s0 k).1| ≤ 1 / 2 - 1 / 2 ^ 29) :
    ∀ m, k ≤ m → (pidRunC indef c dt now0 s0 m).2 = c ∧
      intOf (pidRunC indef c dt now0 s0 m).1 = intOf (pidRunC indef c dt now0 s0 k).1 := by
  have he : 2 * eps = 1 / 2 ^ 29 := by unfold eps; norm_num
  have a := abs_le.mp hnow
  have b := abs_le.mp hlater
  refine pidRunC_rest_forever indef r0 hc0 hc1 h0 h1 k ⟨hx, ?_, ?_, ?_, ?_⟩ <;> intro _ <;>
    rw [he] <;> linarith

/-- From the quasi-static region the request reaches `c` within `n` cycles and stays, where `n` is
    any number with `PhiN ≤ n · eta` (`eta t = t/50 − 2^-30`; `PhiN ≤ 0.32·|e| + 2` in the region when
    the request is not at the end of the scale). -/
theorem C04_pid_settles_from_Q (indef : Int) {c dt now0 : Int} {s0 : PidSt × Int} (r0 : RunSt s0 now0)
    (hc0 : 0 ≤ c) (hc1 : c ≤ 255) (h0 : 50000000 ≤ dt) (h1 : dt ≤ 2000000000) (k n : Nat)
    (hq : (Qpos c (secOf dt) (pidRunC indef c dt now0 s0 k).2 (intOf (pidRunC indef c dt now0 s0 k).1)
            (errOf (pidRunC indef c dt now0 s0 k).1) ∧
          PhiN c (secOf dt) (pidRunC indef c dt now0 s0 k).2 (intOf (pidRunC indef c dt now0 s0 k).1)
            ≤ n * eta (secOf dt)) ∨
        (Qneg c (secOf dt) (pidRunC indef c dt now0 s0 k).2 (intOf (pidRunC indef c dt now0 s0 k).1)
            (errOf (pidRunC indef c dt now0 s0 k).1) ∧
          PhiN (255 - c) (secOf dt) (255 - (pidRunC indef c dt now0 s0 k).2)
            (-intOf (pidRunC indef c dt now0 s0 k).1) ≤ n * eta (secOf dt))) :
    ∀ m, k + n ≤ m → (pidRunC indef c dt now0 s0 m).2 = c :=
  pidRunC_settle_Q indef r0 hc0 hc1 h0 h1 k n hq

/-- non-vacuity: a fresh loop one step below the curve value, 1 s ticks – in `Qpos` right after the
    first call; the request is 101 from cycle 100 on. -/
example (indef : Int) (m : Nat) (hm : 100 ≤ m) :
    (pidRunC indef 101 1000000000 0 (pidClosed indef 101 (pidFresh, 100) 0) m).2 = 101 := by
  obtain ⟨r, hx, hI, hE⟩ := pidFresh_first indef (c := 101) (x := 100) (now := 0) (by norm_num)
    (by norm_num) (by norm_num) (by norm_num)
  obtain ⟨_, htick, hcl⟩ := tickOk_of_seconds (d := 1000000000) (by norm_num) (by norm_num)
  have hcl' := abs_le.mp hcl
  have hd := dl_bounds htick
  have h0 : pidRunC indef 101 1000000000 0 (pidClosed indef 101 (pidFresh, 100) 0) 0
      = pidClosed indef 101 (pidFresh, 100) 0 := rfl
  refine C04_pid_settles_from_Q indef r (by norm_num) (by norm_num) (by norm_num) (by norm_num) 0 100
    (Or.inl ?_) m (by omega)
  rw [h0, hx, hI, hE]
  have hG : Gq 101 100 0 (secOf 1000000000) = 3 / 10 + 1 / 50 * secOf 1000000000 := by
    unfold Gq; norm_num
  refine ⟨⟨by norm_num, by norm_num at hcl' ⊢; linarith, Or.inl (by norm_num), ?_, ?_⟩, ?_⟩
  · intro _; rw [hG]; norm_num at hcl' ⊢; linarith
  · rw [hG]; norm_num at hcl' ⊢; linarith
  · unfold PhiN eta; rw [hG, eps_val]; norm_num at hcl' ⊢; nlinarith

/-! ### (4) the default tick, fresh loop: settles exactly at the curve value -/

/-- **Default gains, default tick 200 ms, identity range, fresh loop.** For every curve value `c` and
    every first request `x0` in 0..255 the closed loop requests exactly `c` at every cycle from the
    6820-th on (cycle 0 = the first call, which only records the clock). 6820 = 20 (validated
    simulation up to the quasi-static region) + 6800 (bound from the potential; the simulation suggests
    ≈ 270). -/
theorem C04_pid_settles_fresh_200ms (indef : Int) (c x0 now0 : Int) (hc0 : 0 ≤ c) (hc1 : c ≤ 255)
    (hx0 : 0 ≤ x0) (hx1 : x0 ≤ 255) (n : Nat) (hn : 6820 ≤ n) :
    (pidRunC indef c 200000000 now0 (pidClosed indef c (pidFresh, x0) now0) n).2 = c :=
  pid_fresh_settles_200ms indef now0 hc0 hc1 hx0 hx1 n hn

example (indef : Int) :
    (pidRunC indef 200 200000000 0 (pidClosed indef 200 (pidFresh, 0) 0) 10000).2 = 200 :=
  C04_pid_settles_fresh_200ms indef 200 0 0 (by norm_num) (by norm_num) (by norm_num) (by norm_num)
    10000 (by norm_num)

/-! ### (6) wind-up after a single huge elapsed time -/

/-- Error 100 (`c = request + 100`), integral at most 1000 in magnitude; then ONE clock step of three
    hours (suspend/resume) followed by ordinary ticks of 50 ms..2 s: the integral jumps to about
    `100 · 10800`, and every one of the next 1001 requests is 255 whatever `c ∈ 100..255` is. -/
theorem C04_pid_suspend_windup (indef c : Int) (nows : Nat → Int) (s0 : PidSt × Int)
    (r0 : RunSt0 s0 (nows 0)) (hI0 : |intOf s0.1| ≤ 1000) (he : c - s0.2 = 100) (hc1 : c ≤ 255)
    (hT : nows 1 - nows 0 = 10800000000000)
    (hticks : ∀ k, 1 ≤ k →
      50000000 ≤ nows (k + 1) - nows k ∧ nows (k + 1) - nows k ≤ 2000000000) :
    ∀ k, 1 ≤ k → k ≤ 1001 → (pidRun indef (fun _ => c) nows s0 k).2 = 255 :=
  pid_suspend_windup indef c nows s0 r0 hI0 he hc1 hT hticks

/-- non-vacuity: fresh loop at request 50, curve value 150, suspended for 3 h right after the first
    call, then 200 ms ticks: request 255 (not 150) at cycles 1..1001. -/
example (indef : Int) (k : Nat) (h1 : 1 ≤ k) (h2 : k ≤ 1001) :
    (pidRun indef (fun _ => 150)
      (fun j => if j = 0 then 0 else 10800000000000 + 200000000 * ((j : Int) - 1))
      (pidClosed indef 150 (pidFresh, 50) 0) k).2 = 255 := by
  obtain ⟨r, hx, hI, _⟩ := pidFresh_first indef (c := 150) (x := 50) (now := 0) (by norm_num)
    (by norm_num) (by norm_num) (by norm_num)
  refine C04_pid_suspend_windup indef 150 _ _ (by simpa using r.toRunSt0) (by rw [hI]; norm_num)
    (by rw [hx]; norm_num) (by norm_num) (by norm_num) ?_ k h1 h2
  intro j hj
  have e1 : ¬ (j + 1 = 0) := by omega
  have e2 : ¬ (j = 0) := by omega
  simp only [e1, e2, if_false]
  constructor <;> push_cast <;> linarith

end Fan2go

#print axioms Fan2go.C04_pid_cycle_exact
#print axioms Fan2go.C04_pid_round_exact
#print axioms Fan2go.C04_pid_no_windup
#print axioms Fan2go.C04_pid_move_toward
#print axioms Fan2go.C04_pid_monotone_far
#print axioms Fan2go.C04_pid_rest_forever
#print axioms Fan2go.C04_pid_settles_from_Q
#print axioms Fan2go.C04_pid_settles_fresh_200ms
#print axioms Fan2go.C04_pid_suspend_windup
