/-
  C18 "Only root-controlled executables are ever run".

  Models: `checkPerm` (= util.CheckFilePermissionsForExecution), `safeCmd` / `safeCmdExecution`
  (= util.SafeCmdExecution), `validateConfigPerm` (= the rule in configuration.validateConfig);
  tied to the real code by stream `ex` (go/harness/exec.go vs Driver/ExecStream.lean), whose
  exhaustive form runs all {root,other} x {root,other} x 512 modes x {direct,symlink} = 4096 files.

  Verdict of the proofs: the property HOLDS for the model (every theorem below is unconditional).
  What is NOT covered, because neither the property nor the code looks at it: the window between the
  check and `execve` (the check stats the resolved file, `exec.CommandContext` is given the ORIGINAL
  path), and the ownership of the directories on the path.
-/
import Fan2go.Proofs.Exec
namespace Fan2go

/-- **C18, the predicate.** For ALL naturals uid / gid / mode the check passes iff the file is owned by
    root, is not writable by a non-root group and is not writable by others.
    (Both sides speak about the same bit tests `mode &&& 0o020`, `mode &&& 0o002`, so no finite
    enumeration is needed; `C18_bits` restates them as single bits, `C18_finite_cover` shows that
    the 2 x 2 x 512 points of the exhaustive stream represent every natural triple.) -/
theorem C18_predicate (s : Stat) : checkPerm .resolved (.ok s) = .ok (.ok ()) ↔ allowed s := by
  unfold checkPerm allowed
  by_cases hu : s.uid = 0 <;> by_cases hg : s.gid = 0 <;>
    by_cases h20 : s.mode &&& 0o020 = 0 <;> by_cases h02 : s.mode &&& 0o002 = 0 <;>
    simp [hu, hg, h20, h02]

/-- the same with the `Bool` view used by the driver -/
theorem C18_passed_iff (s : Stat) : (checkPerm .resolved (.ok s)).passed = true ↔ allowed s := by
  rw [← C18_predicate]
  generalize checkPerm .resolved (.ok s) = p
  constructor
  · intro h
    match p, h with
    | .ok (.ok ()), _ => rfl
  · intro h; subst h; rfl

/-- `allowed` in terms of single permission bits: bit 4 = group-write (0o020), bit 1 = other-write (0o002). -/
theorem C18_bits (s : Stat) :
    allowed s ↔ s.uid = 0 ∧ (s.gid = 0 ∨ s.mode.testBit 4 = false) ∧ s.mode.testBit 1 = false := by
  unfold allowed
  rw [and_020_eq_zero, and_002_eq_zero]

/-- Lifting of the finite matrix to all naturals: the verdict depends only on `uid = 0`, `gid = 0` and
    `mode % 512`, so every `Stat` is judged like one of the 2 x 2 x 512 representatives that the
    exhaustive stream (`gen_perm(exhaustive=True)`) runs on the real code. -/
theorem C18_finite_cover (s : Stat) :
    allowed s ↔ allowed { uid := if s.uid = 0 then 0 else 1234,
                          gid := if s.gid = 0 then 0 else 4321,
                          mode := s.mode % 512 } := by
  unfold allowed
  simp only [and_mod_512 s.mode 0o020 (by decide), and_mod_512 s.mode 0o002 (by decide)]
  by_cases hu : s.uid = 0 <;> by_cases hg : s.gid = 0 <;> simp [hu, hg]

set_option maxRecDepth 20000 in
/-- ... and on those 2 x 2 x 512 representatives the model's verdict is `allowed`, by plain evaluation
    (a `decide` over the finite matrix, independent of `C18_predicate`). -/
theorem C18_matrix :
    ∀ u ∈ [0, 1234], ∀ g ∈ [0, 4321], ∀ m, m < 512 →
      (checkPerm .resolved (.ok ⟨u, g, m⟩)).passed = decide (allowed ⟨u, g, m⟩) := by
  decide

/-- every way the check can be left without passing: nothing but `.ok (.ok ())` counts as passed -/
theorem PermOut.passed_iff (p : PermOut) : p.passed = true ↔ p = .ok (.ok ()) := by
  constructor
  · intro h
    match p, h with
    | .ok (.ok ()), _ => rfl
  · intro h; subst h; rfl

/-- the check passes only on a resolvable path whose RESOLVED file exists, stats, and is `allowed` -/
theorem checkPerm_passed {ev : EvalRes} {st : StatRes} (h : checkPerm ev st = .ok (.ok ())) :
    ev = .resolved ∧ ∃ s, st = .ok s ∧ allowed s := by
  cases ev with
  | err => simp [checkPerm] at h
  | resolved =>
    cases st with
    | notExist => simp [checkPerm] at h
    | otherErr => simp [checkPerm] at h
    | ok s => exact ⟨rfl, s, rfl, (C18_predicate s).mp h⟩

/-- **C18, the guard (on the permission outcome).** `cmd.Output()` is reached – let alone a process
    started – only if the check evaluated AT THIS CALL passed. -/
theorem C18_guard (perm : PermOut) (beh : Beh) (t : Nat) :
    ((safeCmd perm beh t).attempted = true ∨ (safeCmd perm beh t).ran = true) → perm = .ok (.ok ()) := by
  intro h
  match perm with
  | .ok (.ok ()) => rfl
  | .ok (.error e) => simp [safeCmd] at h
  | .err e => simp [safeCmd] at h
  | .panic s => simp [safeCmd] at h

/-- **C18, the guard (on the file).** Something is executed only if the resolved file is `allowed`;
    otherwise the call fails and nothing is attempted. -/
theorem C18_guard_file (ev : EvalRes) (st : StatRes) (beh : Beh) (t : Nat)
    (h : (safeCmdExecution ev st beh t).ran = true) :
    ev = .resolved ∧ ∃ s, st = .ok s ∧ allowed s :=
  checkPerm_passed (C18_guard _ beh t (Or.inr h))

/-- a started process implies an attempted start (so guarding `attempted` is the stronger statement) -/
theorem ran_imp_attempted (perm : PermOut) (beh : Beh) (t : Nat) :
    (safeCmd perm beh t).ran = true → (safeCmd perm beh t).attempted = true := by
  intro h
  have hp := C18_guard perm beh t (Or.inr h)
  subst hp
  exact runCmd_attempted beh t

/-- "otherwise the call fails with an error and nothing is executed": a file that is not `allowed`
    gives an error value (no panic), no start attempt, whatever the command would have done. -/
theorem C18_refused (s : Stat) (beh : Beh) (t : Nat) (h : ¬ allowed s) :
    (∃ e, (safeCmdExecution .resolved (.ok s) beh t).res = .ok (.error e)) ∧
    (safeCmdExecution .resolved (.ok s) beh t).attempted = false ∧
    (safeCmdExecution .resolved (.ok s) beh t).ran = false := by
  rcases checkPerm_ok_cases s with hp | ⟨e, he⟩
  · exact absurd ((C18_predicate s).mp hp) h
  · simp [safeCmdExecution, he, safeCmd]

/-- the same for a path that does not resolve or whose target is missing -/
theorem C18_refused_missing (st : StatRes) (beh : Beh) (t : Nat) :
    (safeCmdExecution .err st beh t).ran = false ∧
    (safeCmdExecution .resolved .notExist beh t).ran = false := by
  simp [safeCmdExecution, checkPerm, safeCmd]

/-- **C18, every call.** In any sequence of executions with arbitrary changes of the file in between
    (chown, chmod, removal, re-pointing the link), each call is judged by the file state AT THAT CALL:
    whenever a logged call ran something, the state logged with it was an `allowed` resolved file.
    (`SafeCmdExecution` has no memory; `runTrace` threads nothing but the file state.) -/
theorem C18_every_call (w : EvalRes × StatRes) (tr : List ExecEvent) :
    ∀ p ∈ runTrace w tr, p.2.ran = true → p.1.1 = .resolved ∧ ∃ s, p.1.2 = .ok s ∧ allowed s := by
  induction tr generalizing w with
  | nil => intro p hp; simp [runTrace] at hp
  | cons e rest ih =>
    cases e with
    | setStat ev st => intro p hp; exact ih (ev, st) p (by simpa [runTrace] using hp)
    | call b t =>
      intro p hp hr
      simp only [runTrace, List.mem_cons] at hp
      rcases hp with rfl | hp
      · exact C18_guard_file _ _ b t hr
      · exact ih w p hp hr

/-- the log has exactly one entry per call, in order, each paired with the state current at that call -/
theorem runTrace_call (w : EvalRes × StatRes) (b : Beh) (t : Nat) (rest : List ExecEvent) :
    runTrace w (.call b t :: rest) = (w, safeCmdExecution w.1 w.2 b t) :: runTrace w rest := rfl

theorem runTrace_setStat (w : EvalRes × StatRes) (ev : EvalRes) (st : StatRes) (rest : List ExecEvent) :
    runTrace w (.setStat ev st :: rest) = runTrace (ev, st) rest := rfl

/-- **C18, symlinks.** The only stat record `checkPerm` receives is that of the path returned by
    `filepath.EvalSymlinks` (Go: `file, err := filepath.EvalSymlinks(file); info, err := os.Stat(file)`);
    the link's own owner/mode is not an input of the model at all, so by `C18_predicate` the verdict is
    a function of the RESOLVED file. What remains to state: an unresolvable path is always refused. -/
theorem C18_symlink (st : StatRes) (beh : Beh) (t : Nat) :
    (checkPerm .err st).passed = false ∧ (safeCmdExecution .err st beh t).attempted = false := by
  simp [checkPerm, PermOut.passed, safeCmdExecution, safeCmd]

/-- **C18, the configuration-file rule.** If the configuration declares a command sensor or a command
    fan, validation accepts only a configuration FILE that is itself `allowed`. -/
theorem C18_config_rule (early fansErr : Option String) (c : CfgView) (ev : EvalRes) (st : StatRes)
    (hc : needsPermCheck c = true)
    (hv : validateConfigPerm early fansErr c ev st = .ok (.ok ())) :
    ev = .resolved ∧ ∃ s, st = .ok s ∧ allowed s := by
  apply checkPerm_passed
  unfold validateConfigPerm at hv
  cases early with
  | some e => simp at hv
  | none =>
    simp only [hc, if_true] at hv
    match hp : checkPerm ev st with
    | .ok (.ok ()) => rfl
    | .ok (.error e) => rw [hp] at hv; simp at hv
    | .err e => rw [hp] at hv; simp at hv
    | .panic s => rw [hp] at hv; simp at hv

/-- without command entries the file's permissions are not looked at -/
theorem C18_config_rule_only_cmd (early fansErr : Option String) (c : CfgView)
    (hc : needsPermCheck c = false) (ev ev' : EvalRes) (st st' : StatRes) :
    validateConfigPerm early fansErr c ev st = validateConfigPerm early fansErr c ev' st' := by
  unfold validateConfigPerm
  simp [hc]

/-- `needsPermCheck` is exactly "a cmd sensor or a cmd fan" -/
theorem needsPermCheck_iff (c : CfgView) :
    needsPermCheck c = true ↔ c.hasCmdSensor = true ∨ c.hasCmdFan = true := by
  simp [needsPermCheck]

/-! ### non-vacuity -/

/-- an allowed file exists and is run -/
example : allowed ⟨0, 0, 0o755⟩ ∧
    safeCmdExecution .resolved (.ok ⟨0, 0, 0o755⟩) (.exits 0 "7\n") 2000 =
      { res := .ok (.ok "7"), attempted := true, ran := true, boundedBy := some 2000 } := by decide

/-- root-owned, foreign group WITHOUT group write: allowed; WITH group write: refused -/
example : allowed ⟨0, 4321, 0o755⟩ ∧ ¬ allowed ⟨0, 4321, 0o775⟩ ∧ allowed ⟨0, 0, 0o775⟩ := by decide

example : ¬ allowed ⟨1234, 0, 0o755⟩ ∧ ¬ allowed ⟨0, 0, 0o757⟩ := by decide

/-- high bits (setuid, file type as in `st_mode`) do not disturb the test -/
example : allowed ⟨0, 0, 0o104755⟩ := by decide

/-- the check is repeated per call: allowed, then chown'ed away, then back -/
example :
    (runTrace (.resolved, .ok ⟨0, 0, 0o755⟩)
      [.call (.exits 0 "7\n") 2000, .setStat .resolved (.ok ⟨1234, 0, 0o755⟩), .call (.exits 0 "7\n") 2000,
       .setStat .resolved (.ok ⟨0, 0, 0o755⟩), .call (.exits 0 "7\n") 2000]).map (·.2.ran)
      = [true, false, true] := by decide

/-- the config rule has both outcomes -/
example : validateConfigPerm none none ⟨true, false⟩ .resolved (.ok ⟨0, 0, 0o644⟩) = .ok (.ok ()) ∧
    validateConfigPerm none none ⟨false, true⟩ .resolved (.ok ⟨1234, 0, 0o644⟩) ≠ .ok (.ok ()) ∧
    validateConfigPerm none none ⟨false, false⟩ .resolved (.ok ⟨1234, 0, 0o666⟩) = .ok (.ok ()) := by decide

/-- a stat error other than not-exist is an error of the check (a panic before fix fc39d65): nothing is run -/
example : checkPerm .resolved .otherErr = .ok (.error "stat") := rfl

#print axioms C18_predicate
#print axioms C18_bits
#print axioms C18_finite_cover
#print axioms C18_matrix
#print axioms C18_guard
#print axioms C18_guard_file
#print axioms C18_refused
#print axioms C18_every_call
#print axioms C18_symlink
#print axioms C18_config_rule
#print axioms C18_config_rule_only_cmd

end Fan2go
