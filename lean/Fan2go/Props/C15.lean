/-
  C15  Stored characterisation is reused; fans are analysed once
       (internal/controller/controller.go `Run` … first tick, `RunInitializationSequence`,
        `computePwmMap(Locked)`, cmd/fan/reset.go, cmd/fan/init.go)

  All theorems are about the executable model `Fan2go.Startup` (Model/Startup.lean): one fan
  declaration `d` (kind, RPM sensor?, PWM readable?, configured pwmMap?, minPwm+maxPwm configured?,
  measurement I/O ok?), the two database entries of its id (`Store`), and the operations
  `start` (a fresh process: `Run` up to the first regulation cycle), `reset` (`fan2go fan reset`) and
  `init` (`fan2go fan init`). `(start d st).acts` lists every step that touches the fan or the
  database; `sweep` and `measure` are the two analysis actions. The model is tied to the Go code by the
  `su` correspondence stream (go/harness/startup.go runs the REAL `Run` on virtual devices with a real
  bbolt file and classifies the PWM writes it observes before the first curve evaluation;
  Driver/StartupStream.lean prints the same line from the model) and by `fact_cli_bodies`
  (Props/Facts.lean: the bodies of reset.go / init.go re-stated in the harness).

  ASSUMED: database operations succeed and behave like a map per bucket (C14); a fan keeps its
  declaration over a history; `stop` has no effect on the store (the regulation loop never writes it).

  FINDING kept as a refuted statement: the README promise about minPwm+maxPwm (`C15_minmax_refuted`).
-/
import Fan2go.Proofs.Startup
namespace Fan2go
open Startup

/-! ### a configured PWM map is always used as is, with no sweep at all -/

/-- With `pwmMap:` configured no operation ever sweeps the fan, whatever is stored; the controller of a
    start that reaches regulation, and of every `fan init`, works with the configured map. -/
theorem C15_override_no_sweep (d : FanDecl) (st : Store) (h : d.cfgMap = true) :
    (start d st).swept = false ∧ ((start d st).ok = true → (start d st).ctl = some .override) ∧
    (init d st).swept = false ∧ (init d st).ctl = some .override :=
  ⟨(override_start d st h).1, (override_start d st h).2, (override_init d st h).1, (override_init d st h).2⟩

/-- … over whole histories: no entry of any trace contains a sweep -/
theorem C15_override_no_sweep_history (d : FanDecl) (st : Store) (ops : List Op) (h : d.cfgMap = true) :
    ∀ e ∈ trace d st ops, e.2.2.swept = false := by
  intro e he
  rw [trace_entry d ops st e he]
  cases e.2.1 with
  | start => exact (override_start d e.1 h).1
  | reset => rfl
  | init => exact (override_init d e.1 h).1

example : (start { cfgMap := true } {}).acts.contains .sweep = false ∧ (start { cfgMap := true } {}).ok = true := by decide

/-! ### stored data are reused -/

/-- Both entries stored and no configured map: the start goes straight to regulation with the stored
    data – it loads the RPM curve, attaches it, takes the stored map – performs neither sweep nor
    measurement and leaves the database as it was. -/
theorem C15_reuse (d : FanDecl) (st : Store)
    (hr : st.rpm = true) (hm : st.map.isSome = true) (hc : d.cfgMap = false) :
    (start d st).acts = [.loadRpmOk, .loadRpmOk, .attach, .useStored, .regulate] ∧
    (start d st).swept = false ∧ (start d st).measured = false ∧
    (start d st).store = st ∧ (start d st).ctl = st.map ∧ (start d st).ok = true := by
  obtain ⟨ha, hs, hctl, hok⟩ := reuse d st hr hm hc
  refine ⟨ha, ?_, ?_, hs, hctl, hok⟩
  · simp [Out.swept, ha]
  · simp [Out.measured, ha]

/-- The first start of a hwmon fan with an RPM sensor on an empty database measures the fan, reaches
    regulation and leaves both entries stored … -/
theorem C15_first_start_stores (d : FanDecl)
    (hk : d.kind = .hwmon) (hr : d.hasRpm = true) (hd : d.devOk = true) :
    let o := start d {}
    o.ok = true ∧ o.measured = true ∧ o.store.rpm = true ∧ o.store.map.isSome = true :=
  first_start_stores d {} hk hr hd rfl

/-- … so that the second start is analysis-free and changes nothing. -/
theorem C15_second_start_reuses (d : FanDecl)
    (hk : d.kind = .hwmon) (hr : d.hasRpm = true) (hd : d.devOk = true) :
    let st1 := (start d {}).store
    (start d st1).analysed = false ∧ (start d st1).store = st1 ∧ (start d st1).ok = true := by
  obtain ⟨hok, _, hrpm, hmap⟩ := first_start_stores d {} hk hr hd rfl
  refine ⟨ok_start_settles d {} hok, ?_, ?_⟩
  · cases hc : d.cfgMap with
    | false => exact (reuse d _ hrpm hmap hc).2.1
    | true => exact (reuse_override d _ hrpm hc).2.1
  · cases hc : d.cfgMap with
    | false => exact (reuse d _ hrpm hmap hc).2.2.2
    | true => exact (reuse_override d _ hrpm hc).2.2

example : (start {} {}).swept = true ∧ (start {} {}).measured = true ∧
    (start {} (start {} {}).store).acts = [.loadRpmOk, .loadRpmOk, .attach, .useStored, .regulate] := by decide

/-! ### histories -/

/-- Over ANY sequence of start / reset / init on one fan, from any database state: a `start` puts the
    fan through an analysis (sweep or RPM-curve measurement) only if at that moment one of its two
    entries was missing. -/
theorem C15_history (d : FanDecl) (st : Store) (ops : List Op) :
    ∀ e ∈ trace d st ops, e.2.1 = Op.start → e.2.2.analysed = true → e.1.missing = true := by
  intro e he hop han
  rw [trace_entry d ops st e he, hop] at han
  exact start_analysed_missing d e.1 han

/-- Equivalently: after a `start` that reached regulation or a `fan init` that succeeded (at any point
    `pre` of any history), every later `start` with only `start`s in between – i.e. until the user
    discards the data with `fan reset` or `fan init` – is analysis-free. -/
theorem C15_history_settled (d : FanDecl) (st : Store) (pre mid : List Op) (op : Op)
    (hop : op = Op.start ∨ op = Op.init)
    (hok : (step d (runStore d st pre) op).ok = true)
    (hmid : ∀ o ∈ mid, o = Op.start) :
    (start d (runStore d st (pre ++ op :: mid))).analysed = false := by
  rw [runStore_append]
  simp only [runStore]
  apply settled_starts d mid hmid
  rcases hop with h | h <;> subst h
  · exact ok_start_settles d _ hok
  · exact ok_init_settles d _ hok

/-- every start of such a stretch also succeeds and leaves the database untouched (hwmon with sensor) -/
example : let d : FanDecl := {}
    (trace d {} [.start, .start, .start, .reset, .start, .start, .init, .start]).map (fun e => e.2.2.analysed)
      = [true, false, false, false, true, false, true, false] := by decide

/-- "until the user discards it" is not vacuous: after `fan reset` the next start analyses again
    (sweep unless a map is configured; measurement for a hwmon fan with RPM sensor), whatever was stored. -/
theorem C15_reset_clears (d : FanDecl) (st : Store) :
    (start d (reset d st).store).swept = (!d.cfgMap && d.pwmRead) ∧
    (start d (reset d st).store).measured = (d.kind == .hwmon && d.hasRpm) :=
  reset_then_start d st

/-- `fan init` itself analyses whatever was stored (it deletes both entries first) -/
theorem C15_init_analyses (d : FanDecl) (st : Store) :
    (init d st).swept = (!d.cfgMap && d.pwmRead) ∧ (init d st).measured = d.hasRpm :=
  init_analyses d st

example : (start {} (reset {} (start {} {}).store).store).analysed = true := by decide

/-! ### file / cmd fans -/

/-- A file (or cmd) fan without configured map is swept on its first start – never measured: its RPM
    curve is built in and simply saved – and not again afterwards. -/
theorem C15_file_first_start_sweeps_once (d : FanDecl)
    (hk : d.kind ≠ .hwmon) (hc : d.cfgMap = false) (hp : d.pwmRead = true) :
    let o := start d {}
    o.ok = true ∧ o.swept = true ∧ o.measured = false ∧
    (start d o.store).analysed = false ∧ (start d o.store).store = o.store := by
  obtain ⟨hok, hs, hm, hst⟩ := file_first_start d {} hk hc hp rfl
  refine ⟨hok, hs, hm, ok_start_settles d {} hok, ?_⟩
  have := reuse d (start d {}).store (by rw [hst]) (by rw [hst]; rfl) hc
  exact this.2.1

example : (start { kind := .file } {}).acts =
    [.loadRpmFail, .saveRpm, .loadRpmOk, .attach, .sweep, .saveMap, .regulate] := by decide

/-! ### the README promise about minPwm + maxPwm -/

/-- README: "use the `minPwm` and `maxPwm` fan config options to set the boundaries yourself. That way the
    initialization phase will be skipped": a fan with both configured is never put through the RPM-curve
    measurement. -/
def C15_minmax_statement : Prop :=
  ∀ (d : FanDecl) (st : Store), d.minMax = true → (start d st).measured = false

/-- The code does not keep that promise: nothing on the start-up path reads the two options. The first
    start of a hwmon fan with RPM sensor, both options configured and nothing stored measures the curve. -/
theorem C15_minmax_refuted : ¬ C15_minmax_statement := by
  intro h
  have := h { kind := .hwmon, hasRpm := true, minMax := true } {} rfl
  revert this
  decide

/-- What does hold: once RPM data are stored the fan is not measured again by any start (with or without
    the two options). -/
theorem C15_minmax_partial (d : FanDecl) (st : Store) (hr : st.rpm = true) :
    (start d st).measured = false := by
  rw [start_measured_iff, hr]; rfl

/-- a hwmon fan without RPM sensor: the initialisation stores no RPM data, the second load fails,
    `Run` returns the error (after restoring the fan) – on every start -/
theorem C15_hwmon_without_rpm_never_starts (d : FanDecl) (st : Store)
    (hk : d.kind = .hwmon) (hr : d.hasRpm = false) (hs : st.rpm = false) :
    (start d st).ok = false ∧ (start d st).store.rpm = false :=
  ⟨(hwmon_without_rpm_fails d st hk hr hs).1, (hwmon_without_rpm_fails d st hk hr hs).2.1⟩

#print axioms C15_override_no_sweep
#print axioms C15_override_no_sweep_history
#print axioms C15_reuse
#print axioms C15_first_start_stores
#print axioms C15_second_start_reuses
#print axioms C15_history
#print axioms C15_history_settled
#print axioms C15_reset_clears
#print axioms C15_init_analyses
#print axioms C15_file_first_start_sweeps_once
#print axioms C15_minmax_refuted
#print axioms C15_minmax_partial
#print axioms C15_hwmon_without_rpm_never_starts

end Fan2go
