import Fan2go.Generated.Trans2
import Fan2go.Props.Trans
import Fan2go.Model.Fan
namespace Fan2go


/-- with strictly increasing keys, looking the i-th key up in the WHOLE map gives the i-th value -/
theorem mapGet_mid {α : Type} [Go.Zero α] (pre rest : List (Int × α)) (k : Int) (v : α)
    (h : SortedMap (pre ++ (k, v) :: rest)) : Go.mapGet (pre ++ (k, v) :: rest) k = v := by
  have hn : pre.find? (fun p => p.1 == k) = none := by
    rw [List.find?_eq_none]
    intro x hx
    have := (List.pairwise_append.mp h).2.2 x hx (k, v) List.mem_cons_self
    simp only [beq_iff_eq]
    simp only at this
    omega
  unfold Go.mapGet
  rw [List.find?_append, hn]
  simp

/-- a loop over the sorted keys that reads `m[key]` is the loop over the (key, value) pairs -/
theorem forIn_keys {α σ : Type} [Go.Zero α] (g : Int → α → σ → Res (ForInStep σ)) :
    ∀ (suf pre : List (Int × α)) (init : σ), SortedMap (pre ++ suf) →
      forIn (suf.map (fun x => x.1)) init (fun k s => g k (Go.mapGet (pre ++ suf) k) s)
        = forIn suf init (fun p s => g p.1 p.2 s) := by
  intro suf
  induction suf with
  | nil => intros; rfl
  | cons p rest ih =>
    intro pre init h
    obtain ⟨k, v⟩ := p
    simp only [List.map_cons, List.forIn_cons]
    rw [mapGet_mid pre rest k v h]
    have e : pre ++ (k, v) :: rest = (pre ++ [(k, v)]) ++ rest := by simp
    congr 1
    funext r
    cases r with
    | done b => rfl
    | yield b =>
      simp only
      rw [e] at h ⊢
      exact ih (pre ++ [(k, v)]) b h

theorem Res.bind_ok' {α β} (a : α) (f : α → Res β) : (Res.ok a >>= f) = f a := rfl
theorem Res.pure_bind' {α β} (a : α) (f : α → Res β) : ((pure a : Res α) >>= f) = f a := rfl

theorem extract_loop : ∀ (m : List (Int × Int)) (res : Array Int) (last : Int),
    ∃ l, forIn (m := Res) m ((res, last) : Array Int × Int) (fun p __s =>
        if __s.snd = -1 ∨ __s.snd ≠ p.2 then pure (ForInStep.yield (__s.fst.push p.1, p.2))
        else pure (ForInStep.yield (__s.fst, __s.snd)))
      = .ok (res ++ (extractKeysAux last m).toArray, l) := by
  intro m
  induction m with
  | nil => intro res last; exact ⟨last, by simp [extractKeysAux]; rfl⟩
  | cons p rest ih =>
    intro res last
    obtain ⟨k, v⟩ := p
    simp only [List.forIn_cons, extractKeysAux]
    by_cases c : last = -1 ∨ last ≠ v
    · obtain ⟨l, hl⟩ := ih (res.push k) v
      refine ⟨l, ?_⟩
      simp only [if_pos c, Res.pure_bind', hl]
      simp
    · obtain ⟨l, hl⟩ := ih res last
      refine ⟨l, ?_⟩
      simp only [if_neg c, Res.pure_bind', hl]

theorem trans2_util_ExtractKeysWithDistinctValues (indef : Int) (m : List (Int × Int)) (h : SortedMap m) :
    Generated2.util_ExtractKeysWithDistinctValues indef m = .ok (extractKeys m).toArray := by
  unfold Generated2.util_ExtractKeysWithDistinctValues
  simp only [Go.sortedKeys]
  have := forIn_keys (σ := Array Int × Int) (fun key value __s =>
            if __s.snd = -1 ∨ __s.snd ≠ value then pure (ForInStep.yield (__s.fst.push key, value))
            else pure (ForInStep.yield (__s.fst, __s.snd))) m [] (#[], -1) h
  simp only [List.nil_append] at this
  rw [this]
  obtain ⟨l, hl⟩ := extract_loop m #[] (-1)
  rw [hl]
  simp only [Res.bind_ok', extractKeys, Array.empty_append]
  rfl

theorem bounds_loop (indef : Int) : ∀ (data : List (Int × F64)) (startPwm maxPwm maxRpm : Int),
    forIn (m := Res) data ((startPwm, maxPwm, maxRpm) : Int × Int × Int) (fun p __s =>
        if F64.toInt indef p.2 > __s.snd.snd then
          if F64.toInt indef p.2 > 0 ∧ p.1 < __s.fst then
            pure (ForInStep.yield (p.1, p.1, F64.toInt indef p.2))
          else pure (ForInStep.yield (__s.fst, p.1, F64.toInt indef p.2))
        else
          if F64.toInt indef p.2 > 0 ∧ p.1 < __s.fst then
            pure (ForInStep.yield (p.1, __s.snd.fst, __s.snd.snd))
          else pure (ForInStep.yield (__s.fst, __s.snd.fst, __s.snd.snd)))
      = .ok ((boundariesLoop indef data (maxRpm, maxPwm, startPwm)).2.2,
             (boundariesLoop indef data (maxRpm, maxPwm, startPwm)).2.1,
             (boundariesLoop indef data (maxRpm, maxPwm, startPwm)).1) := by
  intro data
  induction data with
  | nil => intros; rfl
  | cons p rest ih =>
    intro startPwm maxPwm maxRpm
    obtain ⟨k, v⟩ := p
    simp only [List.forIn_cons, boundariesLoop]
    split <;> split <;> simp only [Res.pure_bind', *]

theorem trans2_fans_ComputePwmBoundaries (indef : Int) (data : List (Int × F64)) (userStart : Int) (h : SortedMap data) :
    Generated2.fans_ComputePwmBoundaries indef data userStart () = .ok (computePwmBoundaries indef userStart data) := by
  unfold Generated2.fans_ComputePwmBoundaries
  simp only [Go.sortedKeys, Array.empty_append, List.toList_toArray]
  have := forIn_keys (σ := Int × Int × Int) (fun pwm value __s =>
        if F64.toInt indef value > __s.snd.snd then
          if F64.toInt indef value > 0 ∧ pwm < __s.fst then
            pure (ForInStep.yield (pwm, pwm, F64.toInt indef value))
          else pure (ForInStep.yield (__s.fst, pwm, F64.toInt indef value))
        else
          if F64.toInt indef value > 0 ∧ pwm < __s.fst then
            pure (ForInStep.yield (pwm, __s.snd.fst, __s.snd.snd))
          else pure (ForInStep.yield (__s.fst, __s.snd.fst, __s.snd.snd))) data [] (255, 255, 0) h
  simp only [List.nil_append] at this
  rw [this, bounds_loop]
  simp only [Res.bind_ok', computePwmBoundaries]
  split <;> rfl

#print axioms trans2_util_ExtractKeysWithDistinctValues
#print axioms trans2_fans_ComputePwmBoundaries

-- the hypothesis is needed: with a repeated key `m[k]` reads the FIRST entry, the model reads each pair
