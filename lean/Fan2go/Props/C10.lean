/-
  C10 — A stalled never-stop fan is noticed and pushed within a bounded time.

  For ALL `indef`, ALL worlds satisfying `Inv`. "The computed target" of a cycle is
  `computedTarget indef w cv l now` = the loop output (ANY loop, never unfolded), clamped to 0..255 and
  rescaled into `[floor, max]`; "the request is unchanged" is the hypothesis
  `computedTarget indef w cv l now = l` with `l` the last request.
-/
import Fan2go.Proofs.Runs
import Fan2go.Proofs.Stall
import Fan2go.Proofs.RpmDecay
import Fan2go.Props.C02
namespace Fan2go
open F64

/-! ### the cycle that finds the fan stalled -/

/-- Stalled below the maximum: the request goes up by one, the offset (hence the floor) goes up by
    one, the average is reset to 1, a raise is announced, `Inv` is kept. -/
theorem C10_stall_raises (indef : Int) (w : World) (cv now l : Int) (hinv : Inv w)
    (hrpm : supports w.fan w.dev .rpmSensor = true) (hns : w.fan.neverStop = true)
    (hl : w.ctl.lastSet = some l) (hT : computedTarget indef w cv l now = l)
    (havg : toInt indef w.fan.getRpmAvg ≤ 0) (hlt : l < w.fan.getMax) :
    ∃ w' obs, calculateTargetPwm indef w (.ok cv) now = (w', .ok (l + 1), obs) ∧
      w'.ctl.offset = w.ctl.offset + 1 ∧ w'.floor = w.floor + 1 ∧
      w'.fan.getRpmAvg = F64.fin 1 ∧
      Obs.raised w.floor (w.floor + 1) ∈ obs ∧ Obs.requested (l + 1) ∈ obs ∧ Inv w' :=
  calc_stall_raises hinv indef cv now l hl hT hrpm hns havg hlt

example (indef : Int) : ∃ w' obs, calculateTargetPwm indef exStalled (.ok 0) 0 = (w', .ok 31, obs) ∧
    Obs.raised 30 31 ∈ obs := exStalled_raises indef

/-- The same for the plain direct loop and a byte curve value `c`: the computed target is
    `rescale indef c floor max`. -/
theorem C10_stall_raises_direct (indef : Int) (w : World) (c now l : Int) (hinv : Inv w)
    (hloop : w.ctl.loop = .direct none) (hc : 0 ≤ c ∧ c ≤ 255)
    (hrpm : supports w.fan w.dev .rpmSensor = true) (hns : w.fan.neverStop = true)
    (hl : w.ctl.lastSet = some l) (hT : rescale indef c w.floor w.fan.getMax = l)
    (havg : toInt indef w.fan.getRpmAvg ≤ 0) (hlt : l < w.fan.getMax) :
    ∃ w' obs, calculateTargetPwm indef w (.ok c) now = (w', .ok (l + 1), obs) ∧
      w'.ctl.offset = w.ctl.offset + 1 ∧ w'.fan.getRpmAvg = F64.fin 1 := by
  obtain ⟨w', obs, h, h1, -, h3, -⟩ := C10_stall_raises indef w c now l hinv hrpm hns hl
    (by rw [computedTarget_direct_none indef c l now hloop hc.1 hc.2]; exact hT) havg hlt
  exact ⟨w', obs, h, h1, h3⟩

example (indef : Int) : ∃ w' obs, calculateTargetPwm indef exStalled (.ok 0) 0 = (w', .ok (30 + 1), obs) ∧
    w'.ctl.offset = exStalled.ctl.offset + 1 ∧ w'.fan.getRpmAvg = F64.fin 1 :=
  C10_stall_raises_direct indef exStalled 0 0 30 exStalled_inv rfl ⟨le_refl _, by norm_num⟩ rfl rfl rfl
    (rescale_zero indef 30 200 (by norm_num) (by norm_num) (by norm_num))
    (by show toInt indef (F64.fin 0) ≤ 0
        rw [toInt_fin_lt_one indef (le_refl _) (by norm_num)])
    (by decide)

/-- Stalled at (or above) the maximum: `ErrFanStalledAtMaxPwm`; `UpdateFanSpeed` returns it and
    regulation of this fan ends. -/
theorem C10_stalled_at_max (indef : Int) (w : World) (cv now l : Int) (hinv : Inv w)
    (hrpm : supports w.fan w.dev .rpmSensor = true) (hns : w.fan.neverStop = true)
    (hl : w.ctl.lastSet = some l) (hT : computedTarget indef w cv l now = l)
    (havg : toInt indef w.fan.getRpmAvg ≤ 0) (hge : w.fan.getMax ≤ l) :
    (∃ w' obs, calculateTargetPwm indef w (.ok cv) now = (w', .err "stalled-at-max", obs) ∧
      Obs.stalledAtMax ∈ obs) ∧
    (stepEv indef w (.cycle (.ok cv) now)).result = .err "stalled-at-max" := by
  obtain ⟨w', obs, h, ho, -⟩ := calc_stall_at_max hinv indef cv now l hl hT hrpm hns havg hge
  refine ⟨⟨w', obs, h, ho⟩, ?_⟩
  rw [stepEv_cycle]
  show (updateFanSpeed indef w (.ok cv) now).2.1 = _
  unfold updateFanSpeed
  rw [h]

/-- a fan whose floor has been raised up to its maximum -/
def exAtMax : World :=
  { exStalled with ctl := { exStalled.ctl with offset := 170, lastSet := some 200 } }

theorem exAtMax_inv : Inv exAtMax where
  min_nonneg := by decide
  offset_nonneg := by decide
  floor_le_max := by decide
  max_le := by decide
  map_some := ⟨exMap, rfl, exMap_ok, rfl⟩

/-- Once the floor has reached the maximum the computed target IS the maximum, for every curve value
    and every loop; a fan still stalled there yields the error. -/
theorem C10_stalled_when_floor_at_max (indef : Int) (w : World) (cv now : Int) (hinv : Inv w)
    (hfl : w.floor = w.fan.getMax)
    (hrpm : supports w.fan w.dev .rpmSensor = true) (hns : w.fan.neverStop = true)
    (hl : w.ctl.lastSet = some w.fan.getMax) (havg : toInt indef w.fan.getRpmAvg ≤ 0) :
    (stepEv indef w (.cycle (.ok cv) now)).result = .err "stalled-at-max" := by
  have hr := computedTarget_range hinv indef cv w.fan.getMax now
  exact (C10_stalled_at_max indef w cv now _ hinv hrpm hns hl (by omega) havg (le_refl _)).2

example (indef : Int) (cv now : Int) :
    (stepEv indef exAtMax (.cycle (.ok cv) now)).result = .err "stalled-at-max" :=
  C10_stalled_when_floor_at_max indef exAtMax cv now exAtMax_inv rfl rfl rfl rfl
    (by show toInt indef (F64.fin 0) ≤ 0
        rw [toInt_fin_lt_one indef (le_refl _) (by norm_num)])

/-! ### how long until the stall test sees the stall -/

/-- file/cmd fans notice a stall after ONE poll: their "average" is the last reading. -/
theorem C10_filecmd_poll_zero (indef : Int) (w : World) (hk : w.fan.kind ≠ .hwmon)
    (hhas : w.dev.hasRpm = true) (hread : w.dev.rpmRead = .ok) (hrpm : w.dev.rpm = 0)
    (hn : 1 ≤ w.rpmWindow) :
    toInt indef (measureRpm indef w).fan.getRpmAvg ≤ 0 :=
  (measureRpm_filecmd_zero indef w hk hhas hread hrpm hn).2

example (indef : Int) :
    toInt indef (measureRpm indef { exStalled with fan := { exStalled.fan with kind := .file, rpmInt := 1200 } }).fan.getRpmAvg ≤ 0 :=
  C10_filecmd_poll_zero indef _ (by decide) rfl rfl rfl (by decide)

/-- hwmon fans notice a stall within `16 · rpmRollingWindowSize` polls: from any float64 average in
    `[0, 32768]` RPM, that many consecutive polls reading 0 bring the average below 1.
    (`Rep64 q`: the payload is a float64 – every value the code ever stores in `RpmMovingAvg` is.) -/
theorem C10_hwmon_notices_within (indef : Int) (w : World) (n : Int) (hn : 1 ≤ n) (hn' : n ≤ 2 ^ 20)
    (hk : w.fan.kind = .hwmon) (hhas : w.dev.hasRpm = true) (hread : w.dev.rpmRead = .ok)
    (hrpm : w.dev.rpm = 0) (hw : w.rpmWindow = n)
    (q : ℚ) (havg : w.fan.getRpmAvg = F64.fin q) (hrep : Rep64 q) (h0 : 0 ≤ q) (hq : q ≤ 2 ^ 15) :
    ∃ q', ((measureRpm indef)^[16 * n.toNat] w).fan.getRpmAvg = F64.fin q' ∧ 0 ≤ q' ∧ q' < 1 ∧
      toInt indef ((measureRpm indef)^[16 * n.toNat] w).fan.getRpmAvg ≤ 0 := by
  rw [pollN_hwmon_zero indef w hk hhas hread hrpm, hw, havg]
  exact hwmon_decay indef hn hn' hrep h0 hq

/-- `exStalled` before it stalled: spinning at 1000 RPM -/
def exSpinning : World := { exStalled with fan := { exStalled.fan with rpmAvg := F64.fin 1000 } }

theorem exSpinning_inv : Inv exSpinning where
  min_nonneg := by decide
  offset_nonneg := by decide
  floor_le_max := by decide
  max_le := by decide
  map_some := ⟨exMap, rfl, exMap_ok, rfl⟩

example (indef : Int) : toInt indef ((measureRpm indef)^[160] exSpinning).fan.getRpmAvg ≤ 0 := by
  obtain ⟨q', -, -, -, h⟩ := C10_hwmon_notices_within indef exSpinning 10 (by norm_num) (by norm_num)
    rfl rfl rfl rfl rfl 1000 rfl
    (by have := rep64_intCast 1000 (by norm_num); simpa using this) (by norm_num) (by norm_num)
  exact h

/-- while the fan reads 0 RPM the average never increases and never becomes negative (one poll) -/
theorem C10_hwmon_avg_nonincreasing (indef : Int) (w : World) (n : Int) (hn : 1 ≤ n) (hn' : n ≤ 2 ^ 20)
    (hk : w.fan.kind = .hwmon) (hhas : w.dev.hasRpm = true) (hread : w.dev.rpmRead = .ok)
    (hrpm : w.dev.rpm = 0) (hw : w.rpmWindow = n)
    (q : ℚ) (havg : w.fan.getRpmAvg = F64.fin q) (hrep : Rep64 q) (h0 : 0 ≤ q) (hq : q ≤ 2 ^ 15) :
    ∃ q', (measureRpm indef w).fan.getRpmAvg = F64.fin q' ∧ Rep64 q' ∧ 0 ≤ q' ∧ q' ≤ q := by
  rw [measureRpm_hwmon_zero indef w hk hhas hread hrpm, hw, havg]
  exact zeroPoll_monotone hn hn' hrep h0 hq

example (indef : Int) : ∃ q', (measureRpm indef exSpinning).fan.getRpmAvg = F64.fin q' ∧ Rep64 q' ∧
    0 ≤ q' ∧ q' ≤ 1000 :=
  C10_hwmon_avg_nonincreasing indef exSpinning 10 (by norm_num) (by norm_num) rfl rfl rfl rfl rfl 1000 rfl
    (by have := rep64_intCast 1000 (by norm_num); simpa using this) (by norm_num) (by norm_num)

/-- After a raise reset the average to 1, ONE poll reading 0 brings a hwmon fan's average below 1
    again (file/cmd fans: `C10_filecmd_poll_zero` – their average after a poll does not depend on the
    value before). So the raises continue at every poll+cycle while the fan reports 0 RPM. -/
theorem C10_reset_then_notices (indef : Int) (w : World) (n : Int) (hn : 1 ≤ n) (hn' : n ≤ 2 ^ 20)
    (hk : w.fan.kind = .hwmon) (hhas : w.dev.hasRpm = true) (hread : w.dev.rpmRead = .ok)
    (hrpm : w.dev.rpm = 0) (hw : w.rpmWindow = n) (havg : w.fan.getRpmAvg = F64.fin 1) :
    ∃ q', (measureRpm indef w).fan.getRpmAvg = F64.fin q' ∧ 0 ≤ q' ∧ q' < 1 ∧
      toInt indef (measureRpm indef w).fan.getRpmAvg ≤ 0 := by
  rw [measureRpm_hwmon_zero indef w hk hhas hread hrpm, hw, havg]
  obtain ⟨q', h, h0, h1⟩ := zeroPoll_one_lt_one hn hn'
  exact ⟨q', h, h0, h1, by rw [h, toInt_fin_lt_one indef h0 h1]⟩

example (indef : Int) :
    ∃ q', (measureRpm indef { exStalled with fan := { exStalled.fan with rpmAvg := F64.fin 1 } }).fan.getRpmAvg
      = F64.fin q' ∧ 0 ≤ q' ∧ q' < 1 ∧
      toInt indef (measureRpm indef { exStalled with fan := { exStalled.fan with rpmAvg := F64.fin 1 } }).fan.getRpmAvg ≤ 0 :=
  C10_reset_then_notices indef _ 10 (by norm_num) (by norm_num) rfl rfl rfl rfl rfl rfl

/-! ### noticed and pushed -/

/-- hwmon: a neverStop fan that stops while the request stays at `l < max` is pushed to `l + 1` by the
    first cycle after at most `16 · rpmRollingWindowSize` polls reading 0 RPM. -/
theorem C10_hwmon_noticed_and_pushed (indef : Int) (w : World) (n cv now l : Int) (hinv : Inv w)
    (hn : 1 ≤ n) (hn' : n ≤ 2 ^ 20)
    (hk : w.fan.kind = .hwmon) (hhas : w.dev.hasRpm = true) (hread : w.dev.rpmRead = .ok)
    (hrpm : w.dev.rpm = 0) (hw : w.rpmWindow = n) (hns : w.fan.neverStop = true)
    (q : ℚ) (havg : w.fan.getRpmAvg = F64.fin q) (hrep : Rep64 q) (h0 : 0 ≤ q) (hq : q ≤ 2 ^ 15)
    (hl : w.ctl.lastSet = some l) (hT : computedTarget indef w cv l now = l) (hlt : l < w.fan.getMax) :
    ∃ w' obs, calculateTargetPwm indef ((measureRpm indef)^[16 * n.toNat] w) (.ok cv) now
        = (w', .ok (l + 1), obs) ∧ Obs.raised w.floor (w.floor + 1) ∈ obs := by
  obtain ⟨q', -, -, -, hz⟩ := C10_hwmon_notices_within indef w n hn hn' hk hhas hread hrpm hw q havg hrep h0 hq
  obtain ⟨k1, k2, k3, k4, k5, k6⟩ := pollN_keeps indef w (16 * n.toNat)
  obtain ⟨a, -, -, -⟩ := pollN_frame indef w (16 * n.toNat)
  obtain ⟨w', obs, h, -, -, -, hr, -⟩ := C10_stall_raises indef ((measureRpm indef)^[16 * n.toNat] w) cv now l
    (k6 hinv) (by rw [k5]; exact hhas) (by rw [k4]; exact hns) (by rw [a]; exact hl)
    (by rw [k1]; exact hT) hz (by rw [k3]; exact hlt)
  rw [k2] at hr
  exact ⟨w', obs, h, hr⟩

example (indef : Int) : ∃ w' obs, calculateTargetPwm indef ((measureRpm indef)^[160] exSpinning) (.ok 0) 0
    = (w', .ok 31, obs) ∧ Obs.raised 30 31 ∈ obs :=
  C10_hwmon_noticed_and_pushed indef exSpinning 10 0 0 30 exSpinning_inv (by norm_num) (by norm_num)
    rfl rfl rfl rfl rfl rfl 1000 rfl
    (by have := rep64_intCast 1000 (by norm_num); simpa using this) (by norm_num) (by norm_num)
    rfl (exStalled_target indef) (by decide)

/-- file/cmd: the same after ONE poll. -/
theorem C10_filecmd_noticed_and_pushed (indef : Int) (w : World) (cv now l : Int) (hinv : Inv w)
    (hk : w.fan.kind ≠ .hwmon) (hhas : w.dev.hasRpm = true) (hread : w.dev.rpmRead = .ok)
    (hrpm : w.dev.rpm = 0) (hn : 1 ≤ w.rpmWindow) (hns : w.fan.neverStop = true)
    (hl : w.ctl.lastSet = some l) (hT : computedTarget indef w cv l now = l) (hlt : l < w.fan.getMax) :
    ∃ w' obs, calculateTargetPwm indef (measureRpm indef w) (.ok cv) now = (w', .ok (l + 1), obs) ∧
      Obs.raised w.floor (w.floor + 1) ∈ obs := by
  have hz := C10_filecmd_poll_zero indef w hk hhas hread hrpm hn
  obtain ⟨k1, k2, k3, k4, k5, k6⟩ := pollN_keeps indef w 1
  obtain ⟨a, -, -, -⟩ := pollN_frame indef w 1
  simp only [Function.iterate_one] at k1 k2 k3 k4 k5 k6 a
  obtain ⟨w', obs, h, -, -, -, hr, -⟩ := C10_stall_raises indef (measureRpm indef w) cv now l
    (k6 hinv) (by rw [k5]; exact hhas) (by rw [k4]; exact hns) (by rw [a]; exact hl)
    (by rw [k1]; exact hT) hz (by rw [k3]; exact hlt)
  rw [k2] at hr
  exact ⟨w', obs, h, hr⟩

/-! ### the raises are bounded -/

/-- Every announced raise increments `minPwmOffset` and `Inv` keeps `min + offset ≤ max`: in ANY run
    (any events, any length) at most `max − floor₀` raises happen. After the last possible one the
    floor equals the maximum and `C10_stalled_when_floor_at_max` applies. -/
theorem C10_raises_bounded (indef : Int) (w0 : World) (es : List Ev) (hinv : Inv w0) :
    (raisesIn (runEvs indef w0 es) : Int) ≤ w0.fan.getMax - w0.floor ∧
    (runFinal indef w0 es).ctl.offset = w0.ctl.offset + (raisesIn (runEvs indef w0 es) : Int) :=
  ⟨run_raises_bounded indef es w0 hinv, run_offset indef es w0⟩

example : (raisesIn (runEvs 0 exStalled [.cycle (.ok 0) 0, .poll, .cycle (.ok 0) 1]) : Int) ≤ 200 - 30 :=
  (C10_raises_bounded 0 exStalled _ exStalled_inv).1

end Fan2go

#print axioms Fan2go.C10_stall_raises
#print axioms Fan2go.C10_stall_raises_direct
#print axioms Fan2go.C10_stalled_at_max
#print axioms Fan2go.C10_stalled_when_floor_at_max
#print axioms Fan2go.C10_filecmd_poll_zero
#print axioms Fan2go.C10_hwmon_notices_within
#print axioms Fan2go.C10_hwmon_avg_nonincreasing
#print axioms Fan2go.C10_reset_then_notices
#print axioms Fan2go.C10_hwmon_noticed_and_pushed
#print axioms Fan2go.C10_filecmd_noticed_and_pushed
#print axioms Fan2go.C10_raises_bounded
