/-
  Translation tie, third generation, the start-up analysis of the controller: `computePwmMapLocked`,
  `computePwmMapAutomatically` (the 255 → 0 sweep), `updateDistinctPwmValues`, `applyPwmMapping` — regenerated from
  internal/controller/controller.go on every run — against the hand-written model of Model/Analysis.lean
  (`computePwmMapLockedD`, `computeAuto`, `sweep`, `updateDistinct`). Core Lean only.

  The model tags every PWM map with where it came from (`MapSrc`: a ghost value the decision model of C15 reasons about)
  and returns the list of actions taken; the code knows neither. The state the translated code runs on is therefore the
  model's state with the tags erased (`InitSt`, `erase`), and the theorems compare erased states.
-/
import Fan2go.Generated.Trans3
import Fan2go.Model.Analysis
namespace Fan2go
open F64 Fan2go.Startup Fan2go.Analysis

/-- what the start-up analysis reads and writes: `f.pwmMap`, `f.pwmValuesWithDistinctTarget`, the stored PWM map of the
    fan's id, the device registers -/
structure InitSt where
  pwmMap : Option (List (Int × Int)) := none
  distinct : List Int := []
  stored : Option (List (Int × Int)) := none
  regs : Regs := {}

def eraseCtl (c : CtlSt) (st : DStore) (r : Regs) : InitSt :=
  { pwmMap := c.pwmMap.map (·.2), distinct := c.distinct, stored := st.map.map (·.2), regs := r }

/-- the operations of the start-up analysis over the model's device (`ph`), configuration (`cfg`) and fan (`fan`) -/
def initOps (indef : Int) (ph : Phys) (cfg : FanCfg) (fan : FanSt) : Generated3.InitOps InitSt where
  -- the operations only `RunInitializationSequence` uses (its own tie, over a richer state, is Props/Trans3RunInit.lean)
  setPwm := fun _ s => (.panic "not-used-here", s)
  getPwm := fun s => (.panic "not-used-here", s)
  waitForFanToSettle := fun s => (.ok (), s)
  fan_GetRpm := fun s => (.panic "not-used-here", s)
  fan_SetRpmAvg := fun _ s => (.ok (), s)
  fan_AttachFanRpmCurveData := fun _ s => (.panic "not-used-here", s)
  persistence_SaveFanPwmData := fun s => (.panic "not-used-here", s)
  get_cfg_RunFanInitializationInParallel := fun s => (.ok true, s)
  fan_Supports := fun k s => (.ok (if k = 0 then cfg.pwmRead else if k = 1 then cfg.hasRpm else if k = 2 then cfg.hasMode else false), s)
  fan_GetPwm := fun s => (.ok (if cfg.pwmRead then (s.regs.pwm, none) else (0, some "read")), s)
  fan_SetPwm := fun v s => (.ok none, { s with regs := ph.write s.regs v })
  fan_GetStartPwm := fun s => (.ok fan.getStart, s)
  fan_GetId := fun s => (.ok "id", s)
  trySetManualPwm := fun s => (.ok none, { s with regs := trySetManual ph cfg s.regs })
  persistence_LoadFanPwmMap := fun _ s =>
    (.ok (match s.stored with | some m => (some m, none) | none => (none, some "not found")), s)
  persistence_SaveFanPwmMap := fun _ m s => (.ok none, { s with stored := m })
  interpolateLinearlyInt := fun m a b s =>
    (if m = some [(0, 0), (255, 255)] ∧ a = 0 ∧ b = 255 then .ok (some (defaultPwmMap indef)) else .panic "interpolate-arguments", s)
  sortInts := fun a s => (.ok (a.toList.mergeSort (fun x y => decide (x ≤ y))).toArray, s)
  typeTag_fan := fun s => (.ok (match cfg.kind with | .hwmon => 0 | .cmd => 1 | .file => 2), s)
  get_fan_Config_PwmMap := fun s => (.ok cfg.cfgMap, s)
  get_pwmMap := fun s => (.ok s.pwmMap, s)
  set_pwmMap := fun m s => (.ok (), { s with pwmMap := m })
  get_pwmValuesWithDistinctTarget := fun s => (.ok s.distinct.toArray, s)
  set_pwmValuesWithDistinctTarget := fun a s => (.ok (), { s with distinct := a.toList })

end Fan2go
