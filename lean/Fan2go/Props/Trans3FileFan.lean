import Fan2go.Props.Trans3FileFanOps
import Fan2go.Props.Trans
namespace Fan2go
open F64
set_option linter.unusedSimpArgs false
set_option linter.unusedVariables false

namespace T3G

/-! ### running `GoM` terms -/

theorem run_bind {σ α β : Type} (m : GoM σ α) (f : α → GoM σ β) (s : σ) :
    (m >>= f) s = match m s with
      | (.ok a, s') => f a s'
      | (.err e, s') => (.err e, s')
      | (.panic p, s') => (.panic p, s') := rfl

theorem run_pure {σ α : Type} (a : α) (s : σ) : (pure a : GoM σ α) s = (.ok a, s) := rfl

theorem run_ite {σ α : Type} (c : Prop) [Decidable c] (a b : GoM σ α) (s : σ) :
    (if c then a else b) s = if c then a s else b s := by split <;> rfl

/-! ### the fields of `fileFanOps` -/

variable (w : World)

theorem f_read (p : String) : fileFanOps.readIntFromFile p w = (.ok (fileDevRead p w.dev), w) := rfl
theorem f_write (v : Int) (p : String) :
    fileFanOps.writeIntToFileAtomic v p w =
      if p = pwmPath then (.ok (t3ErrOf (fanSetPwm w.dev v).2), { w with dev := (fanSetPwm w.dev v).1 })
      else (.ok (some "write"), w) := rfl
theorem f_expand (p : String) : fileFanOps.expandHome p w = (.ok (p, none), w) := rfl
theorem f_path : fileFanOps.get_Config_File_Path w = (.ok pwmPath, w) := rfl
theorem f_rpmPath : fileFanOps.get_Config_File_RpmPath w = (.ok (if w.dev.hasRpm then rpmPath else ""), w) := rfl
theorem f_neverStop : fileFanOps.get_Config_NeverStop w = (.ok w.fan.neverStop, w) := rfl
theorem f_getPwm : fileFanOps.get_Pwm w = (.ok w.dev.pwm, w) := rfl
theorem f_setPwm (v : Int) : fileFanOps.set_Pwm v w = (.ok (), w) := rfl
theorem f_getRpm : fileFanOps.get_Rpm w = (.ok w.fan.rpmInt, w) := rfl
theorem f_setRpm (v : Int) :
    fileFanOps.set_Rpm v w = (.ok (), { w with fan := { w.fan with rpmInt := v } }) := rfl

/-! ### the paths -/

theorem rpm_ne_pwm : rpmPath ≠ pwmPath := by decide
theorem empty_ne_pwm : "" ≠ pwmPath := by decide
theorem empty_ne_rpm : "" ≠ rpmPath := by decide
theorem lenS_empty : Go.lenS "" = 0 := by decide
theorem lenS_rpm : Go.lenS rpmPath > 0 := by decide

theorem fileDevRead_pwm (d : Dev) : fileDevRead pwmPath d = fileReadReg d.pwmRead d.pwm := by
  simp [fileDevRead]
theorem fileDevRead_rpm (d : Dev) :
    fileDevRead rpmPath d = if d.hasRpm then fileReadReg d.rpmRead d.rpm else (-1, some "read") := by
  simp [fileDevRead, rpm_ne_pwm]
theorem fileDevRead_empty (d : Dev) : fileDevRead "" d = (-1, some "read") := by
  unfold fileDevRead
  rw [if_neg empty_ne_pwm, if_neg empty_ne_rpm]

end T3G

open T3G

variable (indef : Int) (curve : Res Int) (now : Int) (w : World)

theorem trans3_FileFan_Supports (h : w.fan.kind = .file) (k : Int) :
    Generated3.FileFan_Supports indef fileFanOps k w = (modelOps indef curve now).fan_Supports k w := by
  unfold Generated3.FileFan_Supports
  have hm : ∀ k, (modelOps indef curve now).fan_Supports k w = (match featureOf k with
      | some ft => (.ok (supports w.fan w.dev ft), w)
      | none => (.ok false, w)) := fun _ => rfl
  rw [hm]
  by_cases h2 : k = 2
  · subst h2
    simp [run_bind, run_pure, run_ite, featureOf, supports, h]
  by_cases h0 : k = 0
  · subst h0
    simp only [run_bind, run_pure, run_ite, f_read, f_path, fileDevRead_pwm]
    cases hh : w.dev.pwmRead <;> simp [featureOf, supports, h, hh, fileReadReg]
  by_cases h1 : k = 1
  · subst h1
    simp only [run_bind, run_pure, run_ite, f_rpmPath]
    cases hh : w.dev.hasRpm <;> simp [featureOf, supports, h, hh, lenS_empty, lenS_rpm, run_pure, run_bind]
  simp [featureOf, h0, h1, h2, run_bind, run_pure, run_ite]

theorem trans3_FileFan_GetPwm (h : w.fan.kind = .file) :
    Generated3.FileFan_GetPwm indef fileFanOps w = (modelOps indef curve now).fan_GetPwm w := by
  unfold Generated3.FileFan_GetPwm
  have hm : (modelOps indef curve now).fan_GetPwm w = goRead 0 (fanGetPwm w.dev) w := rfl
  rw [hm]
  simp only [run_bind, run_pure, run_ite, f_read, f_path, f_expand, f_setPwm, fileDevRead_pwm]
  unfold fanGetPwm
  cases hh : w.dev.pwmRead <;> simp [fileReadReg, goRead, hh, run_bind, run_pure, f_read, f_setPwm, fileDevRead_pwm]

theorem trans3_FileFan_SetPwm (h : w.fan.kind = .file) (v : Int) :
    Generated3.FileFan_SetPwm indef fileFanOps v w = (modelOps indef curve now).fan_SetPwm v w := by
  unfold Generated3.FileFan_SetPwm
  have hm : (modelOps indef curve now).fan_SetPwm v w
      = (.ok (t3ErrOf (fanSetPwm w.dev v).2), { w with dev := (fanSetPwm w.dev v).1 }) := rfl
  rw [hm]
  simp only [run_bind, run_pure, run_ite, f_path, f_expand]
  simp [run_bind, run_pure, run_ite, f_write]
  cases hx : t3ErrOf (fanSetPwm w.dev v).2 <;> simp [hx]

theorem trans3_FileFan_GetRpm (h : w.fan.kind = .file) :
    Generated3.FileFan_GetRpm indef fileFanOps w = (modelOps indef curve now).fan_GetRpm w := by
  unfold Generated3.FileFan_GetRpm
  have hm : (modelOps indef curve now).fan_GetRpm w = modelGetRpm w := rfl
  rw [hm]
  simp only [run_bind, run_pure, run_ite, f_rpmPath, f_expand]
  unfold modelGetRpm fanGetRpm
  cases hr : w.dev.hasRpm
  · simp [h, goRead, run_bind, run_pure, run_ite, f_read, fileDevRead_empty]
  · cases hh : w.dev.rpmRead <;>
      simp [fileReadReg, goRead, hh, hr, h, run_bind, run_pure, run_ite, f_read, f_setRpm, fileDevRead_rpm]

theorem trans3_FileFan_GetMinPwm (h : w.fan.kind = .file) :
    Generated3.FileFan_GetMinPwm indef fileFanOps w = (modelOps indef curve now).fan_GetMinPwm w := by
  unfold Generated3.FileFan_GetMinPwm
  have hm : (modelOps indef curve now).fan_GetMinPwm w = (.ok w.fan.getMin, w) := rfl
  rw [hm]
  simp [run_pure, FanSt.getMin, h]

theorem trans3_FileFan_GetMaxPwm (h : w.fan.kind = .file) :
    Generated3.FileFan_GetMaxPwm indef fileFanOps w = (modelOps indef curve now).fan_GetMaxPwm w := by
  unfold Generated3.FileFan_GetMaxPwm
  have hm : (modelOps indef curve now).fan_GetMaxPwm w = (.ok w.fan.getMax, w) := rfl
  rw [hm]
  simp [run_pure, FanSt.getMax, h]

theorem trans3_FileFan_GetStartPwm (h : w.fan.kind = .file) :
    Generated3.FileFan_GetStartPwm indef fileFanOps w = (.ok w.fan.getStart, w) := by
  unfold Generated3.FileFan_GetStartPwm
  simp [run_pure, FanSt.getStart, h]

theorem trans3_FileFan_GetRpmAvg (h : w.fan.kind = .file) :
    Generated3.FileFan_GetRpmAvg indef fileFanOps w = (modelOps indef curve now).fan_GetRpmAvg w := by
  unfold Generated3.FileFan_GetRpmAvg
  have hm : (modelOps indef curve now).fan_GetRpmAvg w = (.ok w.fan.getRpmAvg, w) := rfl
  rw [hm]
  simp only [run_bind, run_pure, f_getRpm]
  simp [FanSt.getRpmAvg, h]

theorem trans3_FileFan_SetRpmAvg (h : w.fan.kind = .file) (x : F64) :
    Generated3.FileFan_SetRpmAvg indef fileFanOps x w = (modelOps indef curve now).fan_SetRpmAvg x w := by
  unfold Generated3.FileFan_SetRpmAvg
  have hm : (modelOps indef curve now).fan_SetRpmAvg x w
      = (.ok (), { w with fan := w.fan.setRpmAvg indef x }) := rfl
  rw [hm]
  simp only [run_bind, run_pure, f_setRpm]
  simp [FanSt.setRpmAvg, h]

theorem trans3_FileFan_ShouldNeverStop (h : w.fan.kind = .file) :
    Generated3.FileFan_ShouldNeverStop indef fileFanOps w = (modelOps indef curve now).fan_ShouldNeverStop w := by
  unfold Generated3.FileFan_ShouldNeverStop
  simp only [run_bind, run_pure, f_neverStop]
  rfl

theorem trans3_FileFan_SetPwmEnabled (h : w.fan.kind = .file) (v : Int) :
    Generated3.FileFan_SetPwmEnabled indef fileFanOps v w = (modelOps indef curve now).fan_SetPwmEnabled v w := by
  unfold Generated3.FileFan_SetPwmEnabled
  have hm : (modelOps indef curve now).fan_SetPwmEnabled v w
      = (.ok (t3ErrOf (setPwmEnabled w.fan w.dev v).2.1), { w with dev := (setPwmEnabled w.fan w.dev v).1 }) := rfl
  rw [hm]
  simp [run_pure, setPwmEnabled, h, t3ErrOf]

theorem trans3_FileFan_UpdateFanRpmCurveValue (h : w.fan.kind = .file) (pwm : Int) (rpm : F64) :
    Generated3.FileFan_UpdateFanRpmCurveValue indef fileFanOps pwm rpm w
      = (modelOps indef curve now).fan_UpdateFanRpmCurveValue pwm rpm w := by
  unfold Generated3.FileFan_UpdateFanRpmCurveValue
  have hm : (modelOps indef curve now).fan_UpdateFanRpmCurveValue pwm rpm w = modelUpdateCurveValue pwm rpm w := rfl
  rw [hm]
  simp [run_bind, run_pure, modelUpdateCurveValue, h]

theorem trans3_FileFan_limits_fixed (h : w.fan.kind = .file) (pwm : Int) (force : Bool) :
    Generated3.FileFan_SetMinPwm indef fileFanOps pwm force w = (.ok (), { w with fan := w.fan.setMin pwm force })
    ∧ Generated3.FileFan_SetStartPwm indef fileFanOps pwm force w = (.ok (), { w with fan := w.fan.setStart pwm force })
    ∧ Generated3.FileFan_SetMaxPwm indef fileFanOps pwm force w = (.ok (), { w with fan := w.fan.setMax pwm force }) := by
  unfold Generated3.FileFan_SetMinPwm Generated3.FileFan_SetStartPwm Generated3.FileFan_SetMaxPwm
  simp [run_bind, run_pure, FanSt.setMin, FanSt.setStart, FanSt.setMax, h]

theorem trans3_FileFan_AttachFanRpmCurveData (h : w.fan.kind = .file) (data : Option (List (Int × F64))) :
    Generated3.FileFan_AttachFanRpmCurveData indef fileFanOps data w
      = (.ok (t3ErrOf (w.fan.attach indef data).2), { w with fan := (w.fan.attach indef data).1 }) := by
  unfold Generated3.FileFan_AttachFanRpmCurveData
  simp [run_pure, FanSt.attach, h, t3ErrOf]

end Fan2go

#print axioms Fan2go.trans3_FileFan_Supports
#print axioms Fan2go.trans3_FileFan_GetPwm
#print axioms Fan2go.trans3_FileFan_SetPwm
#print axioms Fan2go.trans3_FileFan_GetRpm
#print axioms Fan2go.trans3_FileFan_GetMinPwm
#print axioms Fan2go.trans3_FileFan_GetMaxPwm
#print axioms Fan2go.trans3_FileFan_GetStartPwm
#print axioms Fan2go.trans3_FileFan_GetRpmAvg
#print axioms Fan2go.trans3_FileFan_SetRpmAvg
#print axioms Fan2go.trans3_FileFan_ShouldNeverStop
#print axioms Fan2go.trans3_FileFan_SetPwmEnabled
#print axioms Fan2go.trans3_FileFan_UpdateFanRpmCurveValue
#print axioms Fan2go.trans3_FileFan_limits_fixed
#print axioms Fan2go.trans3_FileFan_AttachFanRpmCurveData
