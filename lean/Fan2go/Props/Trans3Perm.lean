/-
  Translation tie, third generation, the permission check in front of every external command (C18):
  `Generated3.util_CheckFilePermissionsForExecution` — regenerated from internal/util/file.go on every run — computes, on
  the operations record below, exactly what the hand-written model `checkPerm` (Model/Perm.lean) computes, for every
  outcome of `filepath.EvalSymlinks` and `os.Stat` and every stat record.  Core Lean only.
-/
import Fan2go.Generated.Trans3
import Fan2go.Model.Perm
namespace Fan2go

/-- the operations of `CheckFilePermissionsForExecution` over the model's view of the file system: `ev` is the outcome of
    `filepath.EvalSymlinks`, `st` that of `os.Stat` on the RESOLVED path. Reading a field of `info` when `os.Stat` failed is
    a nil dereference (that was the panic before fix fc39d65). -/
def permOps (ev : EvalRes) (st : StatRes) : Generated3.PermOps Unit where
  evalSymlinks := fun p s => (.ok (p, match ev with | .err => some "evalsymlinks" | .resolved => none), s)
  stat := fun _ s => (.ok (match st with | .notExist => some "notexist" | .otherErr => some "stat" | .ok _ => none), s)
  info_Mode := fun s => (match st with | .ok r => .ok (r.mode : Int) | _ => .panic "nil-deref", s)
  get_stat_Uid := fun s => (match st with | .ok r => .ok (r.uid : Int) | _ => .panic "nil-deref", s)
  get_stat_Gid := fun s => (match st with | .ok r => .ok (r.gid : Int) | _ => .panic "nil-deref", s)

/-- Go's `(bool, error)` for the model's outcome -/
def permPair : Except String Unit → Bool × Option String
  | .ok () => (true, none)
  | .error m => (false, some m)

def permOutGo : PermOut → Res (Bool × Option String)
  | .ok r => .ok (permPair r)
  | .err e => .err e
  | .panic p => .panic p



theorem land_nat (a b : Nat) : Go.land (a : Int) (b : Int) = ((a &&& b : Nat) : Int) := by
  simp [Go.land]

theorem trans3_util_CheckFilePermissionsForExecution (indef : Int) (ev : EvalRes) (st : StatRes) (p : String) :
    (Generated3.util_CheckFilePermissionsForExecution indef (permOps ev st) p ()).1 = permOutGo (checkPerm ev st) := by
  cases ev <;> cases st <;>
    simp [Generated3.util_CheckFilePermissionsForExecution, permOps, checkPerm, permOutGo, permPair, bind, GoM.bind', GoM.pure', pure]
  rename_i r
  have h16 : Go.land (r.mode : Int) 16 = ((r.mode &&& 16 : Nat) : Int) := land_nat r.mode 16
  have h2 : Go.land (r.mode : Int) 2 = ((r.mode &&& 2 : Nat) : Int) := land_nat r.mode 2
  by_cases hu : r.uid = 0 <;> by_cases hg : r.gid = 0 <;> by_cases hm : r.mode &&& 16 = 0 <;> by_cases ho : r.mode &&& 2 = 0 <;>
    simp [hu, hg, hm, ho, h16, h2, GoM.bind', GoM.pure']
end Fan2go
