/-
  C03 — Stopping regulation hands the fan back or leaves it at full speed.

  Part (i): the sequential logic of `restorePwmEnabled` (controller.go:389-409) with
  `HwMonFan.SetPwmEnabled` (hwmon.go:166-180) under every fault combination of the device model
  (`Dev.pwmWrite`, `Dev.modeWrite` ∈ applied / refused / ignored, `Dev.modeRead` ∈ ok / errPerm / errOther,
  arbitrary response `Dev.resp`), every original mode and PWM, every fan kind. Objects:
  `restorePwmEnabled`, `setPwmEnabled`, `fanSetPwm`, `updateFanSpeed` in Model/Controller.lean,
  predicate `Restored` in Spec/Controller.lean. Proofs in Proofs/Restore.lean, Proofs/ThirdParty.lean.

  Part (ii): the daemon life cycle as a transition system over schedules (Model/Lifecycle.lean = backend.go
  `RunDaemon`, oklog/run `Group.Run`, controller.go `Run`), fixed semantics (the code in /repo now) and old
  semantics (before commits 19c718c / 5c3af56). Proofs in Proofs/Lifecycle.lean.
-/
import Fan2go.Proofs.Restore
import Fan2go.Proofs.ThirdParty
import Fan2go.Proofs.Lifecycle
namespace Fan2go

/-! ## Part (i): `restorePwmEnabled` under faults -/

/-- C03 (i). If PWM writes reach the register, the register accepts 255, and the mode read-back is
    not blind (it works, or it fails in a way `SetPwmEnabled` notices), then after `restorePwmEnabled`
    the fan is in its original non-manual mode or at PWM 255 — for every original mode and PWM, every
    fan kind with or without `pwmN_enable`, and whether the mode write is applied, refused or ignored
    (`w.dev.modeWrite` is unconstrained). -/
theorem C03_restore (w : World) (hpw : w.dev.pwmWrite = .applied)
    (h255 : w.dev.resp.apply 255 = 255)
    (hmr : w.dev.modeRead = .ok ∨ ∃ v, w.dev.modeRead = .errOther v ∧ v ≠ w.ctl.origMode) :
    Restored (restorePwmEnabled w).1 :=
  restore_restored w hpw h255 hmr

/-- non-vacuity of `C03_restore`, the hard case: original mode 2, the driver silently ignores the
    mode write; the read-back notices ("PWM mode stuck") and the fan ends at 255. -/
example : ∃ w : World, w.dev.pwmWrite = .applied ∧ w.dev.resp.apply 255 = 255 ∧ w.dev.modeRead = .ok ∧
    w.dev.modeWrite = .ignored ∧ w.ctl.origMode = 2 ∧ w.dev.mode = 1 ∧ w.dev.pwm = 80 ∧
    (restorePwmEnabled w).1.dev.mode = 1 ∧ (restorePwmEnabled w).1.dev.pwm = 255 :=
  ⟨{ fan := { kind := .hwmon }, dev := { pwm := 80, mode := 1, modeWrite := .ignored },
     ctl := { origMode := 2, origPwm := 60 } }, by decide⟩

/-- C03 (i). With a cooperative driver the fan is handed back: it ends in the ORIGINAL mode with the
    original PWM written, and `restorePwmEnabled` makes no PWM-255 write (other than the original PWM
    itself being 255). -/
theorem C03_restore_original_mode (w : World) (hk : w.fan.kind = .hwmon) (hm : w.dev.hasMode = true)
    (hne : w.ctl.origMode ≠ 1) (hmw : w.dev.modeWrite = .applied) (hmr : w.dev.modeRead = .ok) :
    (restorePwmEnabled w).1.dev.mode = w.ctl.origMode ∧
    (restorePwmEnabled w).1.dev.pwm = (fanSetPwm w.dev w.ctl.origPwm).1.pwm ∧
    (∀ b, Obs.wrotePwm 255 b ∈ (restorePwmEnabled w).2 → w.ctl.origPwm = 255) :=
  restore_original_mode w hk hm hne hmw hmr

example : ∃ w : World, w.fan.kind = .hwmon ∧ w.dev.hasMode = true ∧ w.ctl.origMode = 2 ∧
    w.dev.modeWrite = .applied ∧ w.dev.modeRead = .ok ∧ w.dev.mode = 1 ∧
    (restorePwmEnabled w).1.dev.mode = 2 ∧ (restorePwmEnabled w).1.dev.pwm = 60 :=
  ⟨{ fan := { kind := .hwmon }, dev := { pwm := 80, mode := 1 }, ctl := { origMode := 2, origPwm := 60 } },
    by decide⟩

/-- C03 (i), tightness: the PWM-write hypothesis cannot be dropped. When the PWM writes are refused
    (or silently ignored) and the mode write is ignored, the fan stays in manual mode at its reduced
    speed — every write is lost, no implementation could do better. -/
theorem C03_restore_tight :
    ∃ w : World, w.dev.pwmWrite = .refused ∧ w.dev.modeWrite = .ignored ∧ w.dev.modeRead = .ok ∧
      w.dev.resp.apply 255 = 255 ∧ ¬ Restored (restorePwmEnabled w).1 ∧
      (restorePwmEnabled w).1.dev.mode = 1 ∧ (restorePwmEnabled w).1.dev.pwm = 80 :=
  ⟨{ fan := { kind := .hwmon }, dev := { pwm := 80, mode := 1, pwmWrite := .refused, modeWrite := .ignored },
     ctl := { origMode := 2, origPwm := 60 } }, by unfold Restored; decide⟩

theorem C03_restore_tight_ignored :
    ∃ w : World, w.dev.pwmWrite = .ignored ∧ w.dev.modeWrite = .ignored ∧ w.dev.modeRead = .ok ∧
      w.dev.resp.apply 255 = 255 ∧ ¬ Restored (restorePwmEnabled w).1 :=
  ⟨{ fan := { kind := .hwmon }, dev := { pwm := 80, mode := 1, pwmWrite := .ignored, modeWrite := .ignored },
     ctl := { origMode := 2, origPwm := 60 } }, by unfold Restored; decide⟩

/-- C03 (i), the residual case the code knowingly accepts: `pwmN_enable` can be written but not read
    (permission error on the read-back: "Continuing assuming it worked"). If the write was silently
    ignored, `SetPwmEnabled` returns nil, no PWM-255 write follows, and the fan stays in manual mode at
    the original PWM. -/
theorem C03_restore_perm_blind :
    ∃ w : World, w.dev.pwmWrite = .applied ∧ w.dev.resp.apply 255 = 255 ∧ w.dev.modeRead = .errPerm ∧
      w.dev.modeWrite = .ignored ∧ ¬ Restored (restorePwmEnabled w).1 ∧
      (restorePwmEnabled w).1.dev.mode = 1 ∧ (restorePwmEnabled w).1.dev.pwm = 60 :=
  ⟨{ fan := { kind := .hwmon }, dev := { pwm := 80, mode := 1, modeRead := .errPerm, modeWrite := .ignored },
     ctl := { origMode := 2, origPwm := 60 } }, by unfold Restored; decide⟩

/-- C03 (i), second residual case (FINDING, see report): the read-back fails with a non-permission error
    and the value `ReadIntFromFile` returns beside the error (−1 for an unreadable or empty file) equals
    the requested mode — which happens when the ORIGINAL mode was captured from the same failing read
    (`originalPwmEnabled = −1`). The "stuck" test `currentValue != value` is then false, `SetPwmEnabled`
    returns the outer nil error, and no PWM-255 write follows. So the third hypothesis of `C03_restore`
    cannot be weakened to "the read-back does not fail with a permission error". -/
theorem C03_restore_read_blind :
    ∃ w : World, w.dev.pwmWrite = .applied ∧ w.dev.resp.apply 255 = 255 ∧
      w.dev.modeRead = .errOther w.ctl.origMode ∧ w.ctl.origMode = -1 ∧
      w.dev.modeWrite = .ignored ∧ ¬ Restored (restorePwmEnabled w).1 ∧
      (restorePwmEnabled w).1.dev.mode = 1 ∧ (restorePwmEnabled w).1.dev.pwm = 60 :=
  ⟨{ fan := { kind := .hwmon }, dev := { pwm := 80, mode := 1, modeRead := .errOther (-1), modeWrite := .ignored },
     ctl := { origMode := -1, origPwm := 60 } }, by unfold Restored; decide⟩

/-- C03 (i). A fatal control error (e.g. a never-stop fan stalled at maximum PWM) leaves everything the
    restore path depends on as it was: `UpdateFanSpeed` returns an error only out of
    `calculateTargetPwm`, which does not touch the device or the values captured at start-up. Hence the
    restore that follows (controller.go:224-227) succeeds under the same hypotheses. -/
theorem C03_stalled_then_restore (indef : Int) (w w' : World) (curve : Res Int) (now : Int) (e : String)
    (obs : List Obs) (h : updateFanSpeed indef w curve now = (w', .err e, obs))
    (hpw : w.dev.pwmWrite = .applied) (h255 : w.dev.resp.apply 255 = 255)
    (hmr : w.dev.modeRead = .ok ∨ ∃ v, w.dev.modeRead = .errOther v ∧ v ≠ w.ctl.origMode) :
    w'.dev = w.dev ∧ w'.ctl.origMode = w.ctl.origMode ∧ w'.ctl.origPwm = w.ctl.origPwm ∧
    w'.fan.kind = w.fan.kind ∧ Restored (restorePwmEnabled w').1 := by
  have hk := calc_keeps indef w curve now
  rw [update_err_inv h] at hk
  refine ⟨hk.dev, hk.origMode, hk.origPwm, hk.kind, ?_⟩
  apply restore_restored
  · rw [hk.dev]; exact hpw
  · rw [hk.dev]; exact h255
  · rw [hk.dev, hk.origMode]; exact hmr

/-- the world of the stall example: never-stop hwmon fan, last request 255 (= maximum), RPM average 0,
    in manual mode at 255; the original mode was 2 (automatic), the original PWM 120. -/
def C03_stalled : World :=
  { fan := { kind := .hwmon, neverStop := true },
    dev := { pwm := 255, mode := 1 },
    ctl := { lastSet := some 255, pwmMap := some [(0, 0), (128, 128), (255, 255)],
             distinct := #[0, 128, 255], origMode := 2, origPwm := 120 } }

/-- non-vacuity of `C03_stalled_then_restore`: the cycle fails with "stalled at max", and the restore
    that follows hands the fan back (mode 2, PWM 120). -/
example : (updateFanSpeed 0 C03_stalled (.ok 255) 0).2.1 = .err "stalled-at-max" ∧
    Obs.stalledAtMax ∈ (updateFanSpeed 0 C03_stalled (.ok 255) 0).2.2 ∧
    (restorePwmEnabled (updateFanSpeed 0 C03_stalled (.ok 255) 0).1).1.dev.mode = 2 ∧
    (restorePwmEnabled (updateFanSpeed 0 C03_stalled (.ok 255) 0).1).1.dev.pwm = 120 := by
  decide +kernel

/-! ## Part (ii): the daemon life cycle -/

open Lifecycle

/-- C03 (ii). With the code that is in /repo now, no schedule — any number of controllers, any number of
    signals at any moment, any controller or sensor-monitor error at any moment — ever brings the process
    into the `panicked` state, and the signal channel is never closed: a signal that finds the buffer full
    is dropped, every other signal is buffered (absorbed). -/
theorem C03_lifecycle_no_crash (rpms : List Bool) (sched : List Choice) :
    (lrun .fixed (linit rpms) sched).proc ≠ .panicked ∧
    (lrun .fixed (linit rpms) sched).chanClosed = false :=
  let g := lrun_ginv sched (linit_ginv rpms)
  ⟨g.alive, g.open_⟩

/-- The statement above is not vacuous: under the OLD semantics (interrupt closes the registered
    channel; actor panics on a `Run` error) `panicked` is reachable with a fan under manual control and
    not restored — (1) by a second signal during shutdown, (2) by another controller's start-up error. -/
theorem C03_old_semantics_crashes :
    (∃ rpms sched, (lrun .old (linit rpms) sched).proc = .panicked ∧
      ∃ c ∈ (lrun .old (linit rpms) sched).ctls, c.touched = true ∧ c.restored = false) ∧
    (∃ rpms sched, Choice.signal ∉ sched ∧ (lrun .old (linit rpms) sched).proc = .panicked ∧
      ∃ c ∈ (lrun .old (linit rpms) sched).ctls, c.touched = true ∧ c.restored = false) :=
  ⟨⟨[true], [.ctl 0 .advance, .ctl 0 .advance, .ctl 0 .advance, .ctl 0 .tick,
             .signal, .sigActor, .interrupt, .signal], by decide⟩,
   ⟨[true, true], [.ctl 0 .advance, .ctl 0 .advance, .ctl 0 .advance, .ctl 0 .tick, .ctl 1 .fail],
     by decide⟩⟩

/-- the same two schedules under the fixed semantics end with the process exited and the fan restored -/
example :
    (lrun .fixed (linit [true]) [.ctl 0 .advance, .ctl 0 .advance, .ctl 0 .advance, .ctl 0 .tick,
        .signal, .sigActor, .interrupt, .signal, .signal,
        .ctl 0 .seeCancel, .signal, .ctl 0 .advance, .ctl 0 .advance, .exit]).proc = .exited 0 ∧
    (lrun .fixed (linit [true, true]) [.ctl 0 .advance, .ctl 0 .advance, .ctl 0 .advance, .ctl 0 .tick,
        .ctl 1 .fail, .interrupt, .sigActor, .ctl 0 .tick, .ctl 0 .seeCancel, .ctl 0 .advance,
        .ctl 0 .advance, .exit]).proc = .exited 1 ∧
    (lrun .fixed (linit [true, true]) [.ctl 0 .advance, .ctl 0 .advance, .ctl 0 .advance, .ctl 0 .tick,
        .ctl 1 .fail, .interrupt, .sigActor, .ctl 0 .tick, .ctl 0 .seeCancel, .ctl 0 .advance,
        .ctl 0 .advance, .exit]).ctls.map (fun c => (c.regulated, c.touched, c.restored)) =
      [(true, true, true), (false, false, false)] := by
  decide

/-- C03 (ii). Whenever the process has exited — on any schedule — every controller's `Run` has returned
    and every controller whose regulation had begun has restored its fan. -/
theorem C03_lifecycle_restores (rpms : List Bool) (sched : List Choice) (code : Nat)
    (h : (lrun .fixed (linit rpms) sched).proc = .exited code) :
    ∀ c ∈ (lrun .fixed (linit rpms) sched).ctls,
      c.phase = .exited ∧ (c.regulated = true → c.restored = true) := by
  intro c hc
  have g := lrun_ginv sched (linit_ginv rpms)
  have hph := g.exited code h c hc
  have hi := g.ctls c hc
  refine ⟨hph, fun hr => ?_⟩
  simp [cinv, hph, hr] at hi
  exact hi.1

/-- C03 (ii), the same for "touched": a fan that this process has written to at all (also during the
    initialisation sequence) is restored when the process has exited — except when `Run` returned
    through the `postInitError` exit. -/
theorem C03_lifecycle_touched (rpms : List Bool) (sched : List Choice) (code : Nat)
    (h : (lrun .fixed (linit rpms) sched).proc = .exited code) :
    ∀ c ∈ (lrun .fixed (linit rpms) sched).ctls,
      c.touched = true → c.restored = true ∨ c.reason = some .postInitError := by
  intro c hc ht
  have g := lrun_ginv sched (linit_ginv rpms)
  have hph := g.exited code h c hc
  have hi := g.ctls c hc
  simp [cinv, hph, ht] at hi
  exact hi.2

/-- C03 (ii), FINDING (see report): the exception is real. After a SUCCESSFUL initialisation sequence
    (which puts the fan under manual control and sweeps it), an error of the second `LoadFanPwmData` or of
    `AttachFanRpmCurveData` makes `Run` return without calling `restorePwmEnabled` (controller.go:164-172):
    the process exits in an orderly way with the fan touched and not restored. -/
theorem C03_lifecycle_init_gap :
    ∃ rpms sched code, (lrun .fixed (linit rpms) sched).proc = .exited code ∧
      ∃ c ∈ (lrun .fixed (linit rpms) sched).ctls, c.touched = true ∧ c.restored = false :=
  ⟨[true], [.ctl 0 .advance, .ctl 0 .advance, .ctl 0 .needInit, .ctl 0 .advance, .ctl 0 .fail,
            .interrupt, .sigActor, .exit], 1, by decide⟩

/-- C03 (ii). Before the initialisation sequence / the control loop starts, the fan is untouched, on
    every schedule (signals during the start-up wait included). -/
theorem C03_lifecycle_untouched_before_start (rpms : List Bool) (sched : List Choice) :
    ∀ c ∈ (lrun .fixed (linit rpms) sched).ctls,
      c.phase = .readOrig ∨ c.phase = .startupWait ∨ c.phase = .loadOrInit →
      c.touched = false ∧ c.restored = false := by
  intro c hc hph
  have hi := (lrun_ginv sched (linit_ginv rpms)).ctls c hc
  rcases hph with h | h | h <;> simp [cinv, h] at hi <;> exact ⟨hi.1.1, hi.2⟩

/-- C03 (ii), progress (enabledness). In any state with the process running and `ctx` cancelled, a
    controller in `ticking` can move to `restoring`; a controller in `restoring` can (always) call
    `restorePwmEnabled` and move to `joining` with `restored = true`; a controller in `joining` can return.
    None of these moves waits for any other actor, so shutdown cannot deadlock. -/
theorem C03_lifecycle_progress (s : LState) (i : Nat) (c : CState) (hp : s.proc = .running)
    (hcan : s.cancelled = true) (hi : s.ctls[i]? = some c) :
    (c.phase = .ticking →
      (lstep .fixed s (.ctl i .seeCancel)).ctls[i]? = some { c with phase := .restoring }) ∧
    (c.phase = .restoring →
      (lstep .fixed s (.ctl i .advance)).ctls[i]? = some { c with phase := .joining, restored := true }) ∧
    (c.phase = .joining →
      (lstep .fixed s (.ctl i .advance)).ctls[i]? = some { c with phase := .exited, reason := some .done }) :=
  ⟨fun h => (progress_ticking hp hcan hi h).1, fun h => (progress_restoring hp hi h).1,
   fun h => (progress_joining hp (.inl hcan) hi h).1⟩

/-- C03 (ii), progress (no deadlock, global form). From every reachable state in which the process is
    still running, one more signal suffices: there is a continuation of the schedule on which the process
    exits — and then, by `C03_lifecycle_restores`, with every regulated fan restored. -/
theorem C03_lifecycle_can_exit (rpms : List Bool) (sched : List Choice)
    (hp : (lrun .fixed (linit rpms) sched).proc = .running) :
    ∃ more code, (lrun .fixed (linit rpms) (sched ++ .signal :: more)).proc = .exited code := by
  have g := lrun_ginv sched (linit_ginv rpms)
  obtain ⟨hr, -⟩ := signal_ready g hp
  obtain ⟨more, code, hfin⟩ := ready_can_exit _ _ (Nat.le_refl _) hr
  refine ⟨[.sigActor, .interrupt] ++ more, code, ?_⟩
  rw [lrun_append]
  have : Choice.signal :: ([.sigActor, .interrupt] ++ more) = [.signal, .sigActor, .interrupt] ++ more := rfl
  rw [this, lrun_append]
  exact hfin

/-- non-vacuity of the progress statements: a reachable running state with `ctx` cancelled and
    controller 0 in `ticking`, controller 1 (no RPM input) still in its start-up wait. -/
example : (lrun .fixed (linit [true, false]) [.ctl 0 .advance, .ctl 0 .advance, .ctl 0 .advance, .ctl 0 .tick,
      .ctl 1 .advance, .signal, .sigActor, .interrupt]).proc = .running ∧
    (lrun .fixed (linit [true, false]) [.ctl 0 .advance, .ctl 0 .advance, .ctl 0 .advance, .ctl 0 .tick,
      .ctl 1 .advance, .signal, .sigActor, .interrupt]).cancelled = true ∧
    (lrun .fixed (linit [true, false]) [.ctl 0 .advance, .ctl 0 .advance, .ctl 0 .advance, .ctl 0 .tick,
      .ctl 1 .advance, .signal, .sigActor, .interrupt]).ctls.map (·.phase) = [.ticking, .startupWait] := by
  decide

#print axioms C03_restore
#print axioms C03_restore_original_mode
#print axioms C03_restore_tight
#print axioms C03_restore_tight_ignored
#print axioms C03_restore_perm_blind
#print axioms C03_restore_read_blind
#print axioms C03_stalled_then_restore
#print axioms C03_lifecycle_no_crash
#print axioms C03_old_semantics_crashes
#print axioms C03_lifecycle_restores
#print axioms C03_lifecycle_touched
#print axioms C03_lifecycle_init_gap
#print axioms C03_lifecycle_untouched_before_start
#print axioms C03_lifecycle_progress
#print axioms C03_lifecycle_can_exit

end Fan2go
