/-
  C03 — Stopping regulation hands the fan back or leaves it at full speed.

  Part (i): the sequential logic of `restorePwmEnabled` (controller.go:389-409) with
  `HwMonFan.SetPwmEnabled` (hwmon.go:166-180) under every fault combination of the device model
  (`Dev.pwmWrite`, `Dev.modeWrite` ∈ applied / refused / ignored, `Dev.modeRead` ∈ ok / errPerm / errOther,
  arbitrary response `Dev.resp`), every original mode and PWM, every fan kind. Objects:
  `restorePwmEnabled`, `setPwmEnabled`, `fanSetPwm`, `updateFanSpeed` in Model/Controller.lean,
  predicate `Restored` in Spec/Controller.lean. Proofs in Proofs/Restore.lean, Proofs/ThirdParty.lean.

  Part (ii): the daemon life cycle as a transition system over schedules (Model/Lifecycle.lean = backend.go
  `RunDaemon`, oklog/run `Group.Run`, controller.go `Run`), fixed semantics (the code in /repo now) and old
  semantics (before commits 19c718c / 5c3af56). Proofs in Proofs/Lifecycle.lean.

  Part (ii'): one controller on its own (`CRun`: the controller's moves and the cancellation of its context) —
  the statement correspondence stream `lc` samples on the REAL `Run(ctx)` (go/harness/lifecycle.go vs
  Driver/LifecycleStream.lean), proved for every stop point and every continuation, and shown to be the
  per-controller slice of the daemon model of part (ii).
-/
import Fan2go.Proofs.Restore
import Fan2go.Proofs.ThirdParty
import Fan2go.Proofs.Lifecycle
namespace Fan2go

/-! ## Part (i): `restorePwmEnabled` under faults -/

/-- C03 (i). If PWM writes reach the register, the register accepts 255, and the mode read-back is
    not blind (it works, or it fails in a way `SetPwmEnabled` notices), then after `restorePwmEnabled`
    the fan is in its original non-manual mode or at PWM 255 — for every original mode and PWM, every
    fan kind with or without `pwmN_enable`, and whether the mode write is applied, refused or ignored
    (`w.dev.modeWrite` is unconstrained). -/
theorem C03_restore (w : World) (hpw : w.dev.pwmWrite = .applied)
    (h255 : w.dev.resp.apply 255 = 255)
    (hmr : w.dev.modeRead = .ok ∨ ∃ v, w.dev.modeRead = .errOther v ∧ v ≠ w.ctl.origMode) :
    Restored (restorePwmEnabled w).1 :=
  restore_restored w hpw h255 hmr

/-- non-vacuity of `C03_restore`, the hard case: original mode 2, the driver silently ignores the
    mode write; the read-back notices ("PWM mode stuck") and the fan ends at 255. -/
example : ∃ w : World, w.dev.pwmWrite = .applied ∧ w.dev.resp.apply 255 = 255 ∧ w.dev.modeRead = .ok ∧
    w.dev.modeWrite = .ignored ∧ w.ctl.origMode = 2 ∧ w.dev.mode = 1 ∧ w.dev.pwm = 80 ∧
    (restorePwmEnabled w).1.dev.mode = 1 ∧ (restorePwmEnabled w).1.dev.pwm = 255 :=
  ⟨{ fan := { kind := .hwmon }, dev := { pwm := 80, mode := 1, modeWrite := .ignored },
     ctl := { origMode := 2, origPwm := 60 } }, by decide⟩

/-- C03 (i). With a cooperative driver the fan is handed back: it ends in the ORIGINAL mode with the
    original PWM written, and `restorePwmEnabled` makes no PWM-255 write (other than the original PWM
    itself being 255). -/
theorem C03_restore_original_mode (w : World) (hk : w.fan.kind = .hwmon) (hm : w.dev.hasMode = true)
    (hne : w.ctl.origMode ≠ 1) (hmw : w.dev.modeWrite = .applied) (hmr : w.dev.modeRead = .ok) :
    (restorePwmEnabled w).1.dev.mode = w.ctl.origMode ∧
    (restorePwmEnabled w).1.dev.pwm = (fanSetPwm w.dev w.ctl.origPwm).1.pwm ∧
    (∀ b, Obs.wrotePwm 255 b ∈ (restorePwmEnabled w).2 → w.ctl.origPwm = 255) :=
  restore_original_mode w hk hm hne hmw hmr

example : ∃ w : World, w.fan.kind = .hwmon ∧ w.dev.hasMode = true ∧ w.ctl.origMode = 2 ∧
    w.dev.modeWrite = .applied ∧ w.dev.modeRead = .ok ∧ w.dev.mode = 1 ∧
    (restorePwmEnabled w).1.dev.mode = 2 ∧ (restorePwmEnabled w).1.dev.pwm = 60 :=
  ⟨{ fan := { kind := .hwmon }, dev := { pwm := 80, mode := 1 }, ctl := { origMode := 2, origPwm := 60 } },
    by decide⟩

/-- C03 (i), tightness: the PWM-write hypothesis cannot be dropped. When the PWM writes are refused
    (or silently ignored) and the mode write is ignored, the fan stays in manual mode at its reduced
    speed — every write is lost, no implementation could do better. -/
theorem C03_restore_tight :
    ∃ w : World, w.dev.pwmWrite = .refused ∧ w.dev.modeWrite = .ignored ∧ w.dev.modeRead = .ok ∧
      w.dev.resp.apply 255 = 255 ∧ ¬ Restored (restorePwmEnabled w).1 ∧
      (restorePwmEnabled w).1.dev.mode = 1 ∧ (restorePwmEnabled w).1.dev.pwm = 80 :=
  ⟨{ fan := { kind := .hwmon }, dev := { pwm := 80, mode := 1, pwmWrite := .refused, modeWrite := .ignored },
     ctl := { origMode := 2, origPwm := 60 } }, by unfold Restored; decide⟩

theorem C03_restore_tight_ignored :
    ∃ w : World, w.dev.pwmWrite = .ignored ∧ w.dev.modeWrite = .ignored ∧ w.dev.modeRead = .ok ∧
      w.dev.resp.apply 255 = 255 ∧ ¬ Restored (restorePwmEnabled w).1 :=
  ⟨{ fan := { kind := .hwmon }, dev := { pwm := 80, mode := 1, pwmWrite := .ignored, modeWrite := .ignored },
     ctl := { origMode := 2, origPwm := 60 } }, by unfold Restored; decide⟩

/-- C03 (i), the residual case the code knowingly accepts: `pwmN_enable` can be written but not read
    (permission error on the read-back: "Continuing assuming it worked"). If the write was silently
    ignored, `SetPwmEnabled` returns nil, no PWM-255 write follows, and the fan stays in manual mode at
    the original PWM. -/
theorem C03_restore_perm_blind :
    ∃ w : World, w.dev.pwmWrite = .applied ∧ w.dev.resp.apply 255 = 255 ∧ w.dev.modeRead = .errPerm ∧
      w.dev.modeWrite = .ignored ∧ ¬ Restored (restorePwmEnabled w).1 ∧
      (restorePwmEnabled w).1.dev.mode = 1 ∧ (restorePwmEnabled w).1.dev.pwm = 60 :=
  ⟨{ fan := { kind := .hwmon }, dev := { pwm := 80, mode := 1, modeRead := .errPerm, modeWrite := .ignored },
     ctl := { origMode := 2, origPwm := 60 } }, by unfold Restored; decide⟩

/-- C03 (i), second residual case (FINDING, see report): the read-back fails with a non-permission error
    and the value `ReadIntFromFile` returns beside the error (−1 for an unreadable or empty file) equals
    the requested mode — which happens when the ORIGINAL mode was captured from the same failing read
    (`originalPwmEnabled = −1`). The "stuck" test `currentValue != value` is then false, `SetPwmEnabled`
    returns the outer nil error, and no PWM-255 write follows. So the third hypothesis of `C03_restore`
    cannot be weakened to "the read-back does not fail with a permission error". -/
theorem C03_restore_read_blind :
    ∃ w : World, w.dev.pwmWrite = .applied ∧ w.dev.resp.apply 255 = 255 ∧
      w.dev.modeRead = .errOther w.ctl.origMode ∧ w.ctl.origMode = -1 ∧
      w.dev.modeWrite = .ignored ∧ ¬ Restored (restorePwmEnabled w).1 ∧
      (restorePwmEnabled w).1.dev.mode = 1 ∧ (restorePwmEnabled w).1.dev.pwm = 60 :=
  ⟨{ fan := { kind := .hwmon }, dev := { pwm := 80, mode := 1, modeRead := .errOther (-1), modeWrite := .ignored },
     ctl := { origMode := -1, origPwm := 60 } }, by unfold Restored; decide⟩

/-- C03 (i). A fatal control error (e.g. a never-stop fan stalled at maximum PWM) leaves everything the
    restore path depends on as it was: `UpdateFanSpeed` returns an error only out of
    `calculateTargetPwm`, which does not touch the device or the values captured at start-up. Hence the
    restore that follows (controller.go:224-227) succeeds under the same hypotheses. -/
theorem C03_stalled_then_restore (indef : Int) (w w' : World) (curve : Res Int) (now : Int) (e : String)
    (obs : List Obs) (h : updateFanSpeed indef w curve now = (w', .err e, obs))
    (hpw : w.dev.pwmWrite = .applied) (h255 : w.dev.resp.apply 255 = 255)
    (hmr : w.dev.modeRead = .ok ∨ ∃ v, w.dev.modeRead = .errOther v ∧ v ≠ w.ctl.origMode) :
    w'.dev = w.dev ∧ w'.ctl.origMode = w.ctl.origMode ∧ w'.ctl.origPwm = w.ctl.origPwm ∧
    w'.fan.kind = w.fan.kind ∧ Restored (restorePwmEnabled w').1 := by
  have hk := calc_keeps indef w curve now
  rw [update_err_inv h] at hk
  refine ⟨hk.dev, hk.origMode, hk.origPwm, hk.kind, ?_⟩
  apply restore_restored
  · rw [hk.dev]; exact hpw
  · rw [hk.dev]; exact h255
  · rw [hk.dev, hk.origMode]; exact hmr

/-- the world of the stall example: never-stop hwmon fan, last request 255 (= maximum), RPM average 0,
    in manual mode at 255; the original mode was 2 (automatic), the original PWM 120. -/
def C03_stalled : World :=
  { fan := { kind := .hwmon, neverStop := true },
    dev := { pwm := 255, mode := 1 },
    ctl := { lastSet := some 255, pwmMap := some [(0, 0), (128, 128), (255, 255)],
             distinct := #[0, 128, 255], origMode := 2, origPwm := 120 } }

/-- non-vacuity of `C03_stalled_then_restore`: the cycle fails with "stalled at max", and the restore
    that follows hands the fan back (mode 2, PWM 120). -/
example : (updateFanSpeed 0 C03_stalled (.ok 255) 0).2.1 = .err "stalled-at-max" ∧
    Obs.stalledAtMax ∈ (updateFanSpeed 0 C03_stalled (.ok 255) 0).2.2 ∧
    (restorePwmEnabled (updateFanSpeed 0 C03_stalled (.ok 255) 0).1).1.dev.mode = 2 ∧
    (restorePwmEnabled (updateFanSpeed 0 C03_stalled (.ok 255) 0).1).1.dev.pwm = 120 := by
  decide +kernel

/-! ## Part (ii): the daemon life cycle -/

open Lifecycle

/-- C03 (ii). With the code that is in /repo now, no schedule — any number of controllers, any number of
    signals at any moment, any controller or sensor-monitor error at any moment — ever brings the process
    into the `panicked` state, and the signal channel is never closed: a signal that finds the buffer full
    is dropped, every other signal is buffered (absorbed). -/
theorem C03_lifecycle_no_crash (rpms : List Bool) (sched : List Choice) :
    (lrun .fixed (linit rpms) sched).proc ≠ .panicked ∧
    (lrun .fixed (linit rpms) sched).chanClosed = false :=
  let g := lrun_ginv sched (linit_ginv rpms)
  ⟨g.alive, g.open_⟩

/-- the start-up of a controller that finds its data in the database, up to the control loop's `select`:
    read the originals, start-up wait, load, second load + attach, 1 s head start -/
def C03_toTicking (i : Nat) : List Choice :=
  [.ctl i .advance, .ctl i .advance, .ctl i .advance, .ctl i .advance, .ctl i .advance]

/-- The statement above is not vacuous: under the OLD semantics (interrupt closes the registered
    channel; actor panics on a `Run` error) `panicked` is reachable with a fan under manual control and
    not restored — (1) by a second signal during shutdown, (2) by another controller's start-up error. -/
theorem C03_old_semantics_crashes :
    (∃ rpms sched, (lrun .old (linit rpms) sched).proc = .panicked ∧
      ∃ c ∈ (lrun .old (linit rpms) sched).ctls, c.touched = true ∧ c.restored = false) ∧
    (∃ rpms sched, Choice.signal ∉ sched ∧ (lrun .old (linit rpms) sched).proc = .panicked ∧
      ∃ c ∈ (lrun .old (linit rpms) sched).ctls, c.touched = true ∧ c.restored = false) :=
  ⟨⟨[true], C03_toTicking 0 ++ [.ctl 0 .tick, .signal, .sigActor, .interrupt, .signal], by decide⟩,
   ⟨[true, true], C03_toTicking 0 ++ [.ctl 0 .tick, .ctl 1 .fail], by decide⟩⟩

/-- the same two schedules under the fixed semantics end with the process exited and the fan restored -/
example :
    (lrun .fixed (linit [true]) (C03_toTicking 0 ++ [.ctl 0 .tick,
        .signal, .sigActor, .interrupt, .signal, .signal,
        .ctl 0 .seeCancel, .signal, .ctl 0 .advance, .ctl 0 .advance, .exit])).proc = .exited 0 ∧
    (lrun .fixed (linit [true, true]) (C03_toTicking 0 ++ [.ctl 0 .tick,
        .ctl 1 .fail, .interrupt, .sigActor, .ctl 0 .tick, .ctl 0 .seeCancel, .ctl 0 .advance,
        .ctl 0 .advance, .exit])).proc = .exited 1 ∧
    (lrun .fixed (linit [true, true]) (C03_toTicking 0 ++ [.ctl 0 .tick,
        .ctl 1 .fail, .interrupt, .sigActor, .ctl 0 .tick, .ctl 0 .seeCancel, .ctl 0 .advance,
        .ctl 0 .advance, .exit])).ctls.map (fun c => (c.regulated, c.touched, c.restored, c.regsRestored)) =
      [(true, true, true, true), (false, false, false, false)] := by
  decide

/-- C03 (ii). Whenever the process has exited — on any schedule — every controller's `Run` has returned
    and every controller whose regulation had begun has restored its fan. -/
theorem C03_lifecycle_restores (rpms : List Bool) (sched : List Choice) (code : Nat)
    (h : (lrun .fixed (linit rpms) sched).proc = .exited code) :
    ∀ c ∈ (lrun .fixed (linit rpms) sched).ctls,
      c.phase = .exited ∧ (c.regulated = true → c.restored = true) := by
  intro c hc
  have g := lrun_ginv sched (linit_ginv rpms)
  have hph := g.exited code h c hc
  have hi := g.ctls c hc
  exact ⟨hph, (cinv_exited hi hph).1⟩

/-- C03 (ii), the same for "touched": a fan that this process has written to at all (also during the
    start-up analysis: PWM-map sweep, RPM-curve measurement) is restored when the process has exited, and
    its registers show it: original non-manual mode, or PWM 255. No exception is left: the error returns
    after the initialisation sequence restore too (commit c9f18fa). -/
theorem C03_lifecycle_touched (rpms : List Bool) (sched : List Choice) (code : Nat)
    (h : (lrun .fixed (linit rpms) sched).proc = .exited code) :
    ∀ c ∈ (lrun .fixed (linit rpms) sched).ctls,
      c.touched = true → c.restored = true ∧ c.regsRestored = true := by
  intro c hc ht
  have g := lrun_ginv sched (linit_ginv rpms)
  have hph := g.exited code h c hc
  have hi := g.ctls c hc
  obtain ⟨-, h2, h3, -, -⟩ := cinv_exited hi hph
  exact ⟨h2 ht, h3 (h2 ht)⟩

/-- C03 (ii). The start-up gap is closed (this theorem replaces the former witness `C03_lifecycle_init_gap`,
    which was true of the code before commit c9f18fa): a controller whose `Run` returned through the
    `initFail` or the `postInitError` exit — `RunInitializationSequence`, the second `LoadFanPwmData` or
    `AttachFanRpmCurveData` failed, possibly after the fan had been put under manual control and swept —
    has called `restorePwmEnabled`, on every schedule; the only returns without a restore are `done`
    (restored in the control loop) and `runError`, and `runError` leaves the fan untouched. -/
theorem C03_lifecycle_init_gap_closed (rpms : List Bool) (sched : List Choice) :
    ∀ c ∈ (lrun .fixed (linit rpms) sched).ctls, c.phase = .exited →
      ((c.reason = some .initFail ∨ c.reason = some .postInitError) → c.restored = true ∧ c.regsRestored = true) ∧
      (c.restored = false → c.reason = some .runError ∧ c.touched = false) := by
  intro c hc hph
  have hi := (lrun_ginv sched (linit_ginv rpms)).ctls c hc
  obtain ⟨-, -, h3, h4, -⟩ := cinv_exited hi hph
  refine ⟨fun hr => ?_, h4⟩
  have : c.restored = true := by
    cases hres : c.restored with
    | true => rfl
    | false => rcases hr with hr | hr <;> simp [(h4 hres).1] at hr
  exact ⟨this, h3 this⟩

/-- non-vacuity, the former gap schedule in today's vocabulary: no stored data, PWM-map sweep, no RPM
    input, the second `LoadFanPwmData` fails — `Run` returns the error with the fan restored; exit status 1 -/
example :
    (lrun .fixed (linit [false]) [.ctl 0 .advance, .ctl 0 .advance, .ctl 0 .needInit, .ctl 0 .needSweep,
        .ctl 0 (.write 255), .ctl 0 (.write 0), .ctl 0 .advance, .ctl 0 .fail,
        .interrupt, .sigActor, .exit]).proc = .exited 1 ∧
    (lrun .fixed (linit [false]) [.ctl 0 .advance, .ctl 0 .advance, .ctl 0 .needInit, .ctl 0 .needSweep,
        .ctl 0 (.write 255), .ctl 0 (.write 0), .ctl 0 .advance, .ctl 0 .fail,
        .interrupt, .sigActor, .exit]).ctls.map
      (fun c => (c.reason, c.touched, c.restored, c.mode, c.pwm)) =
      [(some .postInitError, true, true, 2, 0)] := by
  decide

/-- C03 (ii). Before the initialisation sequence / the control loop starts, the fan is untouched, on
    every schedule (signals during the start-up wait included). -/
theorem C03_lifecycle_untouched_before_start (rpms : List Bool) (sched : List Choice) :
    ∀ c ∈ (lrun .fixed (linit rpms) sched).ctls,
      c.phase = .readOrig ∨ c.phase = .startupWait ∨ c.phase = .loadOrInit ∨ c.phase = .initializing →
      c.touched = false ∧ c.restored = false := by
  intro c hc hph
  have hi := (lrun_ginv sched (linit_ginv rpms)).ctls c hc
  rcases hph with h | h | h | h <;> simp [cinv, h] at hi <;> exact ⟨hi.1.1, hi.2⟩

/-- C03 (ii), progress (enabledness). In any state with the process running and `ctx` cancelled, a
    controller in `ticking` can move to `restoring`; a controller in `restoring` can (always) call
    `restorePwmEnabled` and move to `joining` with `restored = true`; a controller in `joining` can return.
    None of these moves waits for any other actor, so shutdown cannot deadlock. -/
theorem C03_lifecycle_progress (s : LState) (i : Nat) (c : CState) (hp : s.proc = .running)
    (hcan : s.cancelled = true) (hi : s.ctls[i]? = some c) :
    (c.phase = .ticking →
      (lstep .fixed s (.ctl i .seeCancel)).ctls[i]? = some { c with phase := .restoring }) ∧
    (c.phase = .restoring →
      (lstep .fixed s (.ctl i .advance)).ctls[i]? = some { c.restore with phase := .joining } ∧
      c.restore.restored = true) ∧
    (c.phase = .joining →
      (lstep .fixed s (.ctl i .advance)).ctls[i]? = some { c with phase := .exited, reason := some .done }) :=
  ⟨fun h => (progress_ticking hp hcan hi h).1,
   fun h => ⟨(progress_restoring hp hi h).1, (restore_regs c).2.1⟩,
   fun h => (progress_joining hp (.inl hcan) hi h).1⟩

/-- C03 (ii), progress (no circling). Every enabled move of a controller either brings it strictly closer
    to `exited` or is one more write of the start-up analysis / one more control cycle in the same phase;
    and once `ctx` is cancelled a move of the first kind is enabled in every phase but `exited`. -/
theorem C03_lifecycle_no_circling (b : Bool) (c c' : CState) (a : CAct) (ev : CEv)
    (hs : cstep b c a = some (c', ev)) :
    (rank c'.phase < rank c.phase ∨ (c'.phase = c.phase ∧ ((∃ v, a = .write v) ∨ (∃ v, a = .tick v)))) ∧
    (c.phase ≠ .exited → ∃ a₁ c₁ ev₁, cstep true c a₁ = some (c₁, ev₁) ∧ rank c₁.phase < rank c.phase) :=
  ⟨cstep_rank hs, cstep_progress c⟩

/-- C03 (ii), progress (no deadlock, global form). From every reachable state in which the process is
    still running, one more signal suffices: there is a continuation of the schedule on which the process
    exits — and then, by `C03_lifecycle_restores`, with every regulated fan restored. -/
theorem C03_lifecycle_can_exit (rpms : List Bool) (sched : List Choice)
    (hp : (lrun .fixed (linit rpms) sched).proc = .running) :
    ∃ more code, (lrun .fixed (linit rpms) (sched ++ .signal :: more)).proc = .exited code := by
  have g := lrun_ginv sched (linit_ginv rpms)
  obtain ⟨hr, -⟩ := signal_ready g hp
  obtain ⟨more, code, hfin⟩ := ready_can_exit _ _ (Nat.le_refl _) hr
  refine ⟨[.sigActor, .interrupt] ++ more, code, ?_⟩
  rw [lrun_append]
  have : Choice.signal :: ([.sigActor, .interrupt] ++ more) = [.signal, .sigActor, .interrupt] ++ more := rfl
  rw [this, lrun_append]
  exact hfin

/-- non-vacuity of the progress statements: a reachable running state with `ctx` cancelled and
    controller 0 in `ticking`, controller 1 (no RPM input) still in its start-up wait. -/
example : (lrun .fixed (linit [true, false]) (C03_toTicking 0 ++ [.ctl 0 .tick,
      .ctl 1 .advance, .signal, .sigActor, .interrupt])).proc = .running ∧
    (lrun .fixed (linit [true, false]) (C03_toTicking 0 ++ [.ctl 0 .tick,
      .ctl 1 .advance, .signal, .sigActor, .interrupt])).cancelled = true ∧
    (lrun .fixed (linit [true, false]) (C03_toTicking 0 ++ [.ctl 0 .tick,
      .ctl 1 .advance, .signal, .sigActor, .interrupt])).ctls.map (·.phase) = [.ticking, .startupWait] := by
  decide

/-! ## Part (ii'): one controller, every stop point (the statement stream `lc` samples) -/

/-- C03 (ii'). The single-controller slice of the life-cycle model in the vocabulary of correspondence stream
    `lc` (`ret`, `touched`, `restored` = C03's predicate on the final registers, `evals`): for EVERY fan (with or
    without RPM input / control mode, any original mode and PWM), EVERY schedule prefix `pre` — i.e. every stop
    point: during the start-up wait, in the middle of a sweep, after it, mid-measurement, during the head
    start, inside or between control cycles, after a failure — and EVERY continuation `post` after the
    cancellation of the context:
    * (safety) if `Run` has returned, the controller is in `exited` and `touched = 1 → restored = 1`; an
      untouched fan's registers are as they were found; control cycles were only run (`evals > 0`) by a
      controller that restored;
    * (liveness) at most `rank ≤ 12` success-path moves (`drain`) make `Run` return, from wherever the
      controller was when it was cancelled, whatever it did since — and then the same holds. -/
theorem C03_every_stop_point_restores (hasRpm hasMode : Bool) (mode pwm : Int) (pre post : List CEvt) :
    let s := crun (cinit hasRpm hasMode mode pwm) (pre ++ CEvt.cancel :: post)
    (s.ret.isSome = true → s.c.phase = .exited ∧ (s.c.touched = true → s.c.regsRestored = true) ∧
        (s.c.touched = false → s.c.mode = mode ∧ s.c.pwm = pwm) ∧
        (0 < s.cycles → s.c.restored = true)) ∧
    ((drain 12 s).ret.isSome = true ∧ (drain 12 s).c.phase = .exited ∧
        ((drain 12 s).c.touched = true → (drain 12 s).c.regsRestored = true) ∧
        ((drain 12 s).c.touched = false → (drain 12 s).c.mode = mode ∧ (drain 12 s).c.pwm = pwm)) := by
  intro s
  have hs : RInv mode pwm s := crun_rinv _ (cinit_rinv hasRpm hasMode mode pwm)
  have key : ∀ t : CRun, RInv mode pwm t → t.c.phase = .exited →
      (t.c.touched = true → t.c.regsRestored = true) ∧ (0 < t.cycles → t.c.restored = true) := by
    intro t ht hph
    obtain ⟨h1, h2, h3, -, -⟩ := cinv_exited ht.inv hph
    exact ⟨fun h => h3 (h2 h), fun h => h1 (ht.cyc h)⟩
  constructor
  · intro hret
    have hph := hs.ret.1 hret
    exact ⟨hph, (key s hs hph).1, hs.untouched, (key s hs hph).2⟩
  · have hcan : s.cancelled = true := by
      show (crun _ (pre ++ CEvt.cancel :: post)).cancelled = true
      rw [crun_append]
      exact crun_cancelled post _ rfl
    have hex := drain_exits 12 s hcan (rank_le _)
    obtain ⟨es, hes⟩ := drain_eq_crun 12 s
    have hd : RInv mode pwm (drain 12 s) := by rw [hes]; exact crun_rinv es hs
    exact ⟨hd.ret.2 hex, hex, (key _ hd hex).1, hd.untouched⟩

/-- … and without any cancellation at all the safety half holds as well (a controller that stops by itself:
    stalled at maximum PWM, curve error, start-up error). -/
theorem C03_every_return_restores (hasRpm hasMode : Bool) (mode pwm : Int) (es : List CEvt) :
    let s := crun (cinit hasRpm hasMode mode pwm) es
    s.ret.isSome = true → s.c.phase = .exited ∧ (s.c.touched = true → s.c.regsRestored = true) ∧
      (s.ret = some true → s.c.regulated = false ∧ s.cycles = 0) := by
  intro s hret
  have hs : RInv mode pwm s := crun_rinv _ (cinit_rinv hasRpm hasMode mode pwm)
  have hph := hs.ret.1 hret
  obtain ⟨-, h2, h3, -, -⟩ := cinv_exited hs.inv hph
  exact ⟨hph, fun h => h3 (h2 h), fun h => ⟨hs.err h, Nat.eq_zero_of_not_pos fun hc => by
    have := hs.cyc hc; rw [hs.err h] at this; cases this⟩⟩

/-- C03 (ii'). The single-controller run IS the per-controller slice of the daemon model: the daemon LTS with
    that one controller, scheduled with the controller's moves as `.ctl 0 a` and every cancellation as "a signal
    arrives, the signal actor takes it, the group interrupts" (`embed`), is at every moment in the state the
    single-controller run is in (same controller state, same `ctx`), and is still running. Hence every theorem
    of part (ii) about all schedules of the daemon speaks about the runs stream `lc` drives.
    (`linit [b]` is this daemon for the default registers: `linit [b] = { ctls := [(cinit b true 2 0).c] }`.) -/
theorem C03_slice_is_lts (hasRpm hasMode : Bool) (mode pwm : Int) (es : List CEvt) :
    let L := lrun .fixed { ctls := [(cinit hasRpm hasMode mode pwm).c] } (embed es)
    L.ctls = [(crun (cinit hasRpm hasMode mode pwm) es).c] ∧
    L.cancelled = (crun (cinit hasRpm hasMode mode pwm) es).cancelled ∧ L.proc = .running :=
  let h := sim_run es (sim_init (cinit hasRpm hasMode mode pwm).c)
  ⟨h.ctls, h.canc, h.run⟩

example (b : Bool) : linit [b] = { ctls := [(cinit b true 2 0).c] } := rfl

/-- non-vacuity: a hwmon fan found in automatic mode (2) at PWM 90, no stored data; the context is cancelled in
    the middle of the PWM-map sweep; the controller finishes sweep, measurement and head start, sees the
    cancellation at its first `select`, restores, returns nil: touched, mode 2 again, PWM 90 again, no cycle. -/
example :
    let s := crun (cinit true true 2 90)
      ([.act .advance, .act .advance, .act .needInit, .act .needSweep, .act (.write 255), .act (.write 254),
        .cancel, .act (.write 253), .act (.write 0), .act (.write 60), .act .advance, .act (.write 0),
        .act (.write 1), .act .advance, .act .advance, .act .advance, .act .seeCancel, .act .advance,
        .act .advance])
    s.ret = some false ∧ s.c.touched = true ∧ s.c.regsRestored = true ∧ s.c.mode = 2 ∧ s.c.pwm = 90 ∧
      s.cycles = 0 := by
  decide

/-- non-vacuity: a file fan (no control mode) found at PWM 90, cancelled inside its second control cycle:
    handed back at PWM 255 -/
example :
    let s := crun (cinit false false 0 90)
      ([.act .advance, .act .advance, .act .advance, .act .advance, .act .advance, .act .tick, .cancel,
        .act (.tick 140)] )
    s.ret = none ∧ (drain 12 s).ret = some false ∧ (drain 12 s).c.pwm = 255 ∧ (drain 12 s).cycles = 2 ∧
      (drain 12 s).c.regsRestored = true := by
  decide

#print axioms C03_restore
#print axioms C03_restore_original_mode
#print axioms C03_restore_tight
#print axioms C03_restore_tight_ignored
#print axioms C03_restore_perm_blind
#print axioms C03_restore_read_blind
#print axioms C03_stalled_then_restore
#print axioms C03_lifecycle_no_crash
#print axioms C03_old_semantics_crashes
#print axioms C03_lifecycle_restores
#print axioms C03_lifecycle_touched
#print axioms C03_lifecycle_init_gap_closed
#print axioms C03_lifecycle_untouched_before_start
#print axioms C03_lifecycle_progress
#print axioms C03_lifecycle_no_circling
#print axioms C03_lifecycle_can_exit
#print axioms C03_every_stop_point_restores
#print axioms C03_every_return_restores
#print axioms C03_slice_is_lts

end Fan2go
