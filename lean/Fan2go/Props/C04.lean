/-
  C04  Constant curve value: request settles at one target, same for every algorithm
       (internal/control_loop/{direct,pid}.go, internal/controller/controller.go:436-461;
        models: Model/ControlLoop.lean, Model/Controller.lean `rescale`, `clamp255`)

  The loop as the controller closes it: with curve value `c` and previous request `x`
  (the value fed back as `current` is the previous REQUEST, already rescaled into [lo, hi]),
      `closedLoop indef m lo hi c x = rescale indef (clamp255 (directCycle indef m c x)) lo hi`
  and the steady request the property names is `steady indef c lo hi = rescale indef (clamp255 c) lo hi`.
  All theorems hold for every `indef` (the implementation-defined `int(NaN/Inf/huge)`).

  RESULT
  * direct loop without maxPwmChangePerCycle: settles at `steady c lo hi` after ONE cycle from any
    state; `steady` is lo at 0, hi at 255, monotone                       – PROVED
  * direct loop with maxPwmChangePerCycle = m: one step moves by at most m toward c on the
    0..255 scale (exact integer characterisation)                         – PROVED
    closed loop on the identity range lo = 0, hi = 255: reaches c after ⌈255/m⌉ cycles, stays,
    steps ≤ m, monotone                                                   – PROVED (`rescale t 0 255 = t`
    for all 256 values is checked by kernel evaluation of the model)
    closed loop on any other range: settles at `steady c lo hi`            – REFUTED
    (`C04_limited_refuted`): lo = 100, hi = 255, m = 10, c = 0: from the request 100 = steady the
    next request is 154; the trajectory is 100,154,187,207,219,227,231,234,236,237,237,… and from 255
    it is 255,248,244,242,241,240,239,239,…: the loop compares the curve value (scale 0..255) with
    the request (scale lo..hi); the rest point is neither `steady` nor independent of the history.
  * PID: only the first cycle and a rest-point fact are proved; the settling time of the default
    PID and "within one PWM step of steady" are NOT proved here.
-/
import Fan2go.Proofs.DirectLoop
namespace Fan2go
open F64

/-! ### direct loop, no rate limit -/

/-- `Cycle(target, current)` without `maxPwmChangePerCycle` is the clamped target – for every
    target and every `current`. -/
theorem C04_direct_settles (indef : Int) (c x : Int) : directCycle indef none c x = clamp255 c :=
  dl_direct_none_all indef c x

/-- hence the closed loop requests `steady c lo hi` after one cycle from ANY previous request. -/
theorem C04_direct_settles_closed (indef : Int) (lo hi c x : Int) :
    closedLoop indef none lo hi c x = steady indef c lo hi := closedLoop_none indef lo hi c x

/-- … and stays there, for any number k ≥ 1 of cycles. -/
theorem C04_direct_settles_iter (indef : Int) (lo hi c x : Int) (k : Nat) (hk : 1 ≤ k) :
    (closedLoop indef none lo hi c)^[k] x = steady indef c lo hi := by
  obtain ⟨j, rfl⟩ : ∃ j, k = j + 1 := ⟨k - 1, by omega⟩
  rw [Function.iterate_succ_apply', closedLoop_none]

/-- the steady request is the fan's minimum for curve 0, its maximum for curve 255, and
    non-decreasing in the curve value; it always lies in the fan's range. -/
theorem C04_steady_endpoints (indef : Int) (lo hi : Int) (hl : 0 ≤ lo) (hlh : lo ≤ hi) (hh : hi ≤ 255) :
    steady indef 0 lo hi = lo ∧ steady indef 255 lo hi = hi ∧
    (∀ c c', c ≤ c' → steady indef c lo hi ≤ steady indef c' lo hi) ∧
    (∀ c, lo ≤ steady indef c lo hi ∧ steady indef c lo hi ≤ hi) := by
  refine ⟨?_, ?_, ?_, ?_⟩
  · exact dl_rescale_zero indef hl hlh hh
  · exact dl_rescale_full indef hl hlh hh
  · intro c c' h
    exact dl_rescale_mono indef hl hlh hh (clamp255_range c).1 (clamp255_mono h) (clamp255_range c').2
  · intro c
    exact dl_rescale_range indef hl hlh hh (clamp255_range c).1 (clamp255_range c).2

example (indef : Int) : steady indef 0 50 200 = 50 ∧ steady indef 255 50 200 = 200 :=
  ⟨(C04_steady_endpoints indef 50 200 (by norm_num) (by norm_num) (by norm_num)).1,
   (C04_steady_endpoints indef 50 200 (by norm_num) (by norm_num) (by norm_num)).2.1⟩

/-! ### direct loop with maxPwmChangePerCycle -/

/-- exact integer characterisation of one rate-limited cycle. -/
theorem C04_limited_step (indef : Int) (m c x : Int) (hm1 : 1 ≤ m) (hm : m ≤ 255) (hc0 : 0 ≤ c)
    (hc : c ≤ 255) (hx0 : 0 ≤ x) (hx : x ≤ 255) :
    directCycle indef (some m) c x = x + max (-m) (min m (c - x)) :=
  dl_limited_step indef m c x hm1 hm hc0 hc hx0 hx

/-- consequences: the step is at most m, stays in 0..255, moves monotonically toward c, and lands
    on c as soon as c is within reach. -/
theorem C04_limited_step_facts (indef : Int) (m c x : Int) (hm1 : 1 ≤ m) (hm : m ≤ 255) (hc0 : 0 ≤ c)
    (hc : c ≤ 255) (hx0 : 0 ≤ x) (hx : x ≤ 255) :
    let r := directCycle indef (some m) c x
    |r - x| ≤ m ∧ 0 ≤ r ∧ r ≤ 255 ∧ (x ≤ c → x ≤ r ∧ r ≤ c) ∧ (c ≤ x → c ≤ r ∧ r ≤ x) ∧
    (|c - x| ≤ m → r = c) ∧ (m < |c - x| → |c - r| = |c - x| - m) := by
  intro r
  have : r = stepI m c x := dl_limited_step indef m c x hm1 hm hc0 hc hx0 hx
  rw [this]
  exact stepI_facts m c x hm1 hc0 hc hx0 hx

example (indef : Int) : directCycle indef (some 10) 200 100 = 110 := by
  rw [C04_limited_step indef 10 200 100 (by norm_num) (by norm_num) (by norm_num) (by norm_num)
    (by norm_num) (by norm_num)]; norm_num

/-- the range 0..255 is mapped to itself identically (all 256 cases). -/
theorem C04_rescale_identity (indef : Int) (t : Int) (h0 : 0 ≤ t) (h1 : t ≤ 255) :
    rescale indef t 0 255 = t := dl_rescale_id indef h0 h1

/-- Identity range (min 0, max 255): the k-th request from x0 is `min c (x0 + k·m)` from below and
    `max c (x0 − k·m)` from above. -/
theorem C04_limited_identity_closed_form (indef : Int) (m c x0 : Int) (k : Nat) (hm1 : 1 ≤ m)
    (hm : m ≤ 255) (hc0 : 0 ≤ c) (hc : c ≤ 255) (hx0 : 0 ≤ x0) (hx : x0 ≤ 255) :
    (closedLoop indef (some m) 0 255 c)^[k] x0 =
      if x0 ≤ c then min c (x0 + k * m) else max c (x0 - k * m) :=
  closedLoop_identity_iter indef hm1 hm hc0 hc hx0 hx k

/-- Identity range: after any k with k·m ≥ 255 (i.e. k ≥ ⌈255/m⌉ – depends on m only) the request
    equals the curve value = `steady c 0 255` and stays there; consecutive requests differ by at most
    m and approach monotonically. -/
theorem C04_limited_settles_identity (indef : Int) (m c x0 : Int) (hm1 : 1 ≤ m) (hm : m ≤ 255)
    (hc0 : 0 ≤ c) (hc : c ≤ 255) (hx0 : 0 ≤ x0) (hx : x0 ≤ 255) :
    let req := fun k : Nat => (closedLoop indef (some m) 0 255 c)^[k] x0
    (∀ k : Nat, 255 ≤ (k : Int) * m → req k = c) ∧ steady indef c 0 255 = c ∧
    (∀ k, |req (k + 1) - req k| ≤ m) ∧
    (∀ k, |c - req (k + 1)| ≤ |c - req k|) ∧
    (∀ k, (x0 ≤ c → req k ≤ req (k + 1) ∧ req (k + 1) ≤ c) ∧
          (c ≤ x0 → c ≤ req (k + 1) ∧ req (k + 1) ≤ req k)) := by
  intro req
  have hreq : ∀ k : Nat, req k = approach m c x0 k :=
    fun k => closedLoop_identity_iter indef hm1 hm hc0 hc hx0 hx k
  have hk1 : ∀ k : Nat, ((k + 1 : Nat) : Int) * m = k * m + m := by intro k; push_cast; ring
  have hkm : ∀ k : Nat, (0 : Int) ≤ k * m := by intro k; positivity
  refine ⟨?_, ?_, ?_, ?_, ?_⟩
  · intro k hk
    rw [hreq]; unfold approach; split_ifs <;> omega
  · unfold steady; rw [clamp255_id hc0 hc]; exact dl_rescale_id indef hc0 hc
  · intro k
    rw [hreq, hreq]; unfold approach; rw [hk1]
    have := hkm k
    generalize (k : Int) * m = km at *
    rw [abs_le]; split_ifs <;> constructor <;> omega
  · intro k
    rw [hreq, hreq]; unfold approach; rw [hk1]
    have := hkm k
    generalize (k : Int) * m = km at *
    split_ifs
    · rw [abs_of_nonneg (by omega), abs_of_nonneg (by omega)]; omega
    · rw [abs_of_nonpos (by omega), abs_of_nonpos (by omega)]; omega
  · intro k
    rw [hreq, hreq]; unfold approach; rw [hk1]
    have := hkm k
    generalize (k : Int) * m = km at *
    constructor <;> intro h <;> split_ifs <;> constructor <;> omega

example (indef : Int) : (closedLoop indef (some 100) 0 255 30)^[3] 255 = 30 :=
  (C04_limited_settles_identity indef 100 30 255 (by norm_num) (by norm_num) (by norm_num)
    (by norm_num) (by norm_num) (by norm_num)).1 3 (by norm_num)

/-! ### any other range: the claim fails on the code that exists -/

/-- The property's claim for the rate-limited direct loop: for every limit m there is a number N of
    cycles (depending on m only) after which the request is `steady c lo hi`, whatever the range,
    curve value and starting request. -/
def C04_limited_settles_statement : Prop :=
  ∀ m : Int, 1 ≤ m → m ≤ 255 → ∃ N : Nat, ∀ (indef lo hi c x0 : Int),
    0 ≤ lo → lo < hi → hi ≤ 255 → 0 ≤ c → c ≤ 255 → lo ≤ x0 → x0 ≤ hi →
    ∀ k : Nat, N ≤ k → (closedLoop indef (some m) lo hi c)^[k] x0 = steady indef c lo hi

/-- Witness (for every `indef`): fan range 100..255, limit 10, curve value 0. `steady` is 100, but
    from the request 100 the next request is 154; 237, 238 and 239 are rest points; the trajectories
    from 100 and from 255 end at different values. -/
theorem C04_limited_witness (indef : Int) :
    steady indef 0 100 255 = 100 ∧
    closedLoop indef (some 10) 100 255 0 100 = 154 ∧
    closedLoop indef (some 10) 100 255 0 237 = 237 ∧
    closedLoop indef (some 10) 100 255 0 239 = 239 := by
  have ind : ∀ x : Int, 0 ≤ x → x ≤ 255 →
      closedLoop indef (some 10) 100 255 0 x = closedLoop 0 (some 10) 100 255 0 x := fun x h0 h1 =>
    closedLoop_some_indep indef (by norm_num) (by norm_num) le_rfl (by norm_num) h0 h1 (by norm_num)
      (by norm_num)
  refine ⟨(C04_steady_endpoints indef 100 255 (by norm_num) (by norm_num) le_rfl).1, ?_, ?_, ?_⟩
  · rw [ind 100 (by norm_num) (by norm_num)]; exact dl_wit_step
  · rw [ind 237 (by norm_num) (by norm_num)]; exact dl_wit_fix.1
  · rw [ind 239 (by norm_num) (by norm_num)]; exact dl_wit_fix.2.2

/-- the first twelve requests from 100, and the first five from 255 (model evaluated at `indef = 0`;
    by `closedLoop_some_indep` the values do not depend on `indef`). -/
theorem C04_limited_witness_trajectory :
    (List.range 12).map (fun k => (closedLoop 0 (some 10) 100 255 0)^[k] 100)
      = [100, 154, 187, 207, 219, 227, 231, 234, 236, 237, 237, 237] ∧
    (List.range 5).map (fun k => (closedLoop 0 (some 10) 100 255 0)^[k] 255)
      = [255, 248, 244, 242, 241] := ⟨dl_wit_traj, dl_wit_traj_from_max⟩

theorem C04_limited_refuted : ¬ C04_limited_settles_statement := by
  intro h
  obtain ⟨N, hN⟩ := h 10 (by norm_num) (by norm_num)
  have hk := hN 0 100 255 0 100 (by norm_num) (by norm_num) le_rfl le_rfl (by norm_num) le_rfl
    (by norm_num)
  have a := hk N le_rfl
  have b := hk (N + 1) (by omega)
  obtain ⟨s, w, _, _⟩ := C04_limited_witness 0
  rw [Function.iterate_succ_apply', a, s, w] at b
  omega

/-- the rest point depends on the history: started at 237 the request stays 237 forever, started at
    239 it stays 239 forever – neither is `steady 0 100 255 = 100`. -/
theorem C04_limited_history_dependent (indef : Int) (k : Nat) :
    (closedLoop indef (some 10) 100 255 0)^[k] 237 = 237 ∧
    (closedLoop indef (some 10) 100 255 0)^[k] 239 = 239 := by
  obtain ⟨_, _, f7, f9⟩ := C04_limited_witness indef
  exact ⟨Function.iterate_fixed f7 k, Function.iterate_fixed f9 k⟩

/-! ### PID (partial) -/

/-- first call of the PID loop (`lastTime.IsZero()`): the output is 0, so the result is the clamped
    `current` – the curve value is ignored in this cycle; the clock is stored, the integral untouched. -/
theorem C04_pid_first_cycle (indef : Int) (st : PidSt) (c x now : Int) (h : st.lastTime = none)
    (hx : |x| ≤ 2 ^ 53) :
    (pidCycle indef st c x now).2 = clamp255 x ∧
    (pidCycle indef st c x now).1.lastTime = some now ∧
    (pidCycle indef st c x now).1.integral = st.integral :=
  dl_pid_first indef st c x now h hx

/-- a rest point of the PID loop: target = current, no previous error, empty integral, finite gains
    and a finite non-zero `dt` – output 0, memory unchanged (up to the clock), result = clamped
    `current`. -/
theorem C04_pid_rest_point (indef : Int) (st : PidSt) (x now last : Int) (p i d t : ℚ)
    (hp : st.p = fin p) (hi : st.i = fin i) (hd : st.d = fin d) (he : st.error = fin 0)
    (hI : st.integral = fin 0) (hl : st.lastTime = some last)
    (ht : secondsOfNanos (now - last) = fin t) (ht0 : t ≠ 0) (hx : |x| ≤ 2 ^ 53) :
    pidCycle indef st x x now = ({ st with lastTime := some now }, clamp255 x) :=
  dl_pid_rest indef st x now last p i d t hp hi hd he hI hl ht ht0 hx

example (indef : Int) :
    (pidCycle indef { p := fin 1, i := fin 0, d := fin 0 } 200 100 5).2 = 100 := by
  have := (C04_pid_first_cycle indef { p := fin 1, i := fin 0, d := fin 0 } 200 100 5 rfl
    (by norm_num)).1
  rw [this]; rfl

end Fan2go

#print axioms Fan2go.C04_direct_settles
#print axioms Fan2go.C04_direct_settles_closed
#print axioms Fan2go.C04_direct_settles_iter
#print axioms Fan2go.C04_steady_endpoints
#print axioms Fan2go.C04_limited_step
#print axioms Fan2go.C04_limited_step_facts
#print axioms Fan2go.C04_rescale_identity
#print axioms Fan2go.C04_limited_identity_closed_form
#print axioms Fan2go.C04_limited_settles_identity
#print axioms Fan2go.C04_limited_witness
#print axioms Fan2go.C04_limited_witness_trajectory
#print axioms Fan2go.C04_limited_refuted
#print axioms Fan2go.C04_limited_history_dependent
#print axioms Fan2go.C04_pid_first_cycle
#print axioms Fan2go.C04_pid_rest_point
