/-
  C15 (second part)  WHAT the start-up analysis computes
       (internal/controller/controller.go `computePwmMapAutomatically`, `updateDistinctPwmValues`, the RPM-curve
        loop of `RunInitializationSequence`, `setPwm`, `waitForFanToSettle`; internal/util/math.go
        `InterpolateLinearlyInt`; internal/fans/{common,hwmon}.go `AttachFanRpmCurveData`, `ComputePwmBoundaries`)

  Props/C15.lean is about WHICH analysis steps a start takes (the decision model `Fan2go.Startup`). The theorems
  here are about the data-carrying model `Fan2go.Analysis` (Model/Analysis.lean): the PWM map, the distinct
  targets, the measured RPM curve, the stored entries and the limits derived from them, for a device with
  response function `resp` (a written value `v` shows up as `resp v`) and RPM characteristic `rpmOf`; the
  harness's devices are `resp = quantResp q` (`v ↦ ⌊v/q⌋·q`, identity for q ≤ 1), `rpmOf = harnessRpm spinAt`
  (10 RPM per step from register value `spinAt` on). Every read succeeds and every write is applied (failing
  I/O: C09). They discharge what the other properties assume about the analysis:
    * C01 / C12 quantify over PWM maps with `MapOk` – `C15_map_reflects_device` proves it of the swept map;
    * C05 assumes `ReadsBack.idem` ("the fan reads back every output of the PWM map") – `C15_map_readsBack`;
    * the decision model's input `devOk` ("the measurement delivers") – `C15_curve_delivers` makes it a
      theorem for these devices;
    * C13's `specStart` / `specMax` are evaluated on the measured curve – `C15_curve_limits`.
  Tie: `su.data` / `su.poke` / `su.settle` of the `su` stream (go/harness/startup.go runs the REAL code and
  prints the stored map, the stored curve, the limits a fresh fan derives from it and the device registers;
  Driver/StartupStream.lean prints the same from `startD` / `initD` / `resetD` / `limitsOf` / `settle`).
  `C15_data_refines`: erasing the data of these runs gives exactly the decision model's runs, so Props/C15.lean
  and Props/C16.lean speak about them too.
-/
import Fan2go.Proofs.AnalysisRuns
import Fan2go.Proofs.AnalysisSettle
namespace Fan2go
open Startup Analysis F64

/-! ### (a) the PWM map -/

/-- `computePwmMapAutomatically` on a device whose PWM value can be read: whatever state the device is in, the
    computed map is `{i ↦ resp i | i ∈ 0..255}`. -/
theorem C15_map_sweep (ph : Phys) (r : Regs) : (sweep ph r).2 = sweptMap ph.resp := sweep_map ph r

/-- … and for a fan WITHOUT PWM read support the map `InterpolateLinearlyInt({0:0, 255:255}, 0, 255)` – each of
    the 256 keys through `Ratio`, the multiply-add and the `float64(float32(·))` hop of the `F64` model,
    evaluated by the kernel – is the identity on 0..255 for every value of the implementation-defined
    `int(NaN)`; so is the built-in RPM curve of file / cmd fans (`InterpolateLinearly`). -/
theorem C15_map_default_identity (indef : Int) :
    defaultPwmMap indef = sweptMap id ∧ fileCurve = floatIdent ∧
    interpolateLinearly [(0, ofInt 0), (255, ofInt 255)] 0 255 = .ok floatIdent :=
  ⟨defaultPwmMap_eq indef, fileCurve_eq, interpolate_identity⟩

/-- The first `Run` (nothing stored) and every `fan init` of a hwmon fan with RPM input, readable PWM and no
    configured map, on a device with an idempotent response inside 0..255: the STORED and the USED map are the
    device's response on every key; the map is well-formed (`MapOk`: C01 / C12) and the device reads back each
    of its outputs (`ReadsBack.idem`: C05); the controller's targets are the distinct keys of that map. -/
theorem C15_map_reflects_device (indef : Int) (ph : Phys) (hn : ph.Nice) (cfg : FanCfg)
    (hk : cfg.kind = .hwmon) (hr : cfg.hasRpm = true) (hpr : cfg.pwmRead = true) (hcm : cfg.cfgMap = none)
    (st : DStore) (hsr : st.rpm = none) (hsm : st.map = none) (r : Regs) :
    (∀ o, o = startD indef ph cfg st r ∨ o = initD indef ph cfg r →
      o.ok = true ∧
      o.store.map = some (.swept, sweptMap ph.resp) ∧ o.ctl.pwmMap = some (.swept, sweptMap ph.resp) ∧
      o.ctl.distinct = extractKeys (sweptMap ph.resp) ∧
      ∀ k, 0 ≤ k → k ≤ 255 → o.ctl.mapping k = ph.resp k) ∧
    MapOk (sweptMap ph.resp) ∧ ∀ p ∈ sweptMap ph.resp, ph.resp p.2 = p.2 := by
  refine ⟨?_, sweptMap_mapOk _ hn.range, sweptMap_idem _ (fun v _ _ => hn.idem v)⟩
  intro o ho
  have hmap : ∀ o : DOut, o.ctl.pwmMap = some (.swept, sweptMap ph.resp) →
      ∀ k, 0 ≤ k → k ≤ 255 → o.ctl.mapping k = ph.resp k := by
    intro o h k k0 k1; simp only [CtlSt.mapping, h]; exact mapGet_sweptMap _ k0 k1
  rcases ho with rfl | rfl
  · obtain ⟨h1, _, h3, _, h5, h6⟩ := startD_swept indef ph hn cfg hk hr hpr hcm st hsr hsm r
    exact ⟨h1, h3, h5, h6, hmap _ h5⟩
  · obtain ⟨h1, _, _, h4, _, h6, h7⟩ := initD_swept indef ph hn cfg hk hr hpr hcm r
    exact ⟨h1, h4, h6, h7, hmap _ h6⟩

/-- the same for a file / cmd fan (no measurement: the built-in curve is stored) -/
theorem C15_map_reflects_device_file (indef : Int) (ph : Phys) (cfg : FanCfg) (hk : cfg.kind ≠ .hwmon)
    (hpr : cfg.pwmRead = true) (hcm : cfg.cfgMap = none)
    (st : DStore) (hsr : st.rpm = none) (hsm : st.map = none) (r : Regs) :
    let o := startD indef ph cfg st r
    o.ok = true ∧ o.store.map = some (.swept, sweptMap ph.resp) ∧ o.store.rpm = some fileCurve ∧
    o.ctl.pwmMap = some (.swept, sweptMap ph.resp) ∧ o.ctl.distinct = extractKeys (sweptMap ph.resp) :=
  startD_other_swept indef ph cfg hk hpr hcm st hsr hsm r

/-- In the vocabulary of the controller properties (Spec/Controller.lean): a world whose controller works with
    the swept map of its own device, reads and writes succeeding, satisfies C05's device contract `ReadsBack`
    as soon as the device's response is idempotent – and its map is `MapOk` when the response stays in 0..255. -/
theorem C15_map_readsBack (w : World) (hpr : w.dev.pwmRead = .ok) (hpw : w.dev.pwmWrite = .applied)
    (hmr : w.dev.modeRead = .ok) (hmw : w.dev.modeWrite = .applied)
    (hmap : w.ctl.pwmMap = some (sweptMap w.dev.resp.apply))
    (hidem : ∀ v, 0 ≤ v → v ≤ 255 → w.dev.resp.apply (w.dev.resp.apply v) = w.dev.resp.apply v) :
    ReadsBack w ∧
    ((∀ v, 0 ≤ v → v ≤ 255 → 0 ≤ w.dev.resp.apply v ∧ w.dev.resp.apply v ≤ 255) →
      ∃ m, w.ctl.pwmMap = some m ∧ MapOk m) := by
  refine ⟨⟨hpr, hpw, hmr, hmw, ?_⟩, fun h => ⟨_, hmap, sweptMap_mapOk _ h⟩⟩
  intro m hm p hp
  rw [hmap] at hm
  have : m = sweptMap w.dev.resp.apply := by simpa using hm.symm
  subst this
  exact sweptMap_idem _ hidem p hp

/-- the identity and every quantiser of Model/Fan.lean are idempotent and stay in 0..255 -/
theorem C15_map_quant_idem (q v : Int) :
    (DevResp.quant q).apply ((DevResp.quant q).apply v) = (DevResp.quant q).apply v ∧
    DevResp.identity.apply (DevResp.identity.apply v) = DevResp.identity.apply v ∧
    quantResp q (quantResp q v) = quantResp q v ∧
    (0 ≤ v → v ≤ 255 → 0 ≤ quantResp q v ∧ quantResp q v ≤ 255) := by
  refine ⟨?_, rfl, quantResp_idem q v, fun h0 h1 => ?_⟩
  · simp only [DevResp.apply]
    split
    · rfl
    · next h => rw [Int.mul_ediv_cancel _ (by omega)]
  · have := quantResp_range q h0; exact ⟨this.1, by omega⟩

example : sweptMap (quantResp 64) ≠ sweptMap id ∧ mapGet (sweptMap (quantResp 64)) 100 = 64 ∧
    mapGet (sweptMap (quantResp 3)) 100 = 99 := by decide

/-! ### (b) the distinct targets -/

/-- `updateDistinctPwmValues` after a sweep: key 0 and every key at which the device's response changes – the
    first key of each run of equal outputs (responses ≠ −1, the sentinel of `ExtractKeysWithDistinctValues`). -/
theorem C15_distinct_first_of_runs (resp : Int → Int) (h : ∀ v, 0 ≤ v → v ≤ 255 → resp v ≠ -1) :
    extractKeys (sweptMap resp) =
      ((List.range 256).filter fun (i : Nat) => decide (i = 0 ∨ resp ((i : Int) - 1) ≠ resp (i : Int))).map
        (fun (i : Nat) => (i : Int)) :=
  extractKeys_sweptMap resp h

/-- … for the quantiser `q`: exactly the multiples of `q` below 256, ascending (every value for `q ≤ 1`). -/
theorem C15_distinct_targets (q : Int) :
    extractKeys (sweptMap (quantResp q)) =
      ((List.range 256).filter fun (i : Nat) => decide (q ≤ 1) || decide (q ∣ (i : Int))).map
        (fun (i : Nat) => (i : Int)) ∧
    (∀ k, k ∈ extractKeys (sweptMap (quantResp q)) ↔ 0 ≤ k ∧ k ≤ 255 ∧ (q ≤ 1 ∨ q ∣ k)) ∧
    (extractKeys (sweptMap (quantResp q))).Pairwise (· < ·) ∧
    (∀ k ∈ extractKeys (sweptMap (quantResp q)), quantResp q k = k) :=
  ⟨extractKeys_sweptMap_quant q, mem_targets_quant q, extractKeys_sorted _ (sweptMap_sorted _),
   fun _ hk => quantResp_target hk⟩

example : extractKeys (sweptMap (quantResp 32)) = [0, 32, 64, 96, 128, 160, 192, 224] ∧
    extractKeys (sweptMap (quantResp 3)) = (List.range 86).map (fun (i : Nat) => (3 * i : Int)) ∧
    (extractKeys (sweptMap (quantResp 0))).length = 256 := by decide +kernel

/-! ### (c) the measured RPM curve -/

/-- The measurement loop, for ANY map `m` in the controller (swept, stored, configured) with its distinct
    targets: it never fails, and the recorded curve is `measSpec`: per target `k`, in ascending order –
    readable PWM: nothing is written if the register already shows `m[k]` (point recorded), otherwise `m[k]` is
    written and the point is recorded iff the device reads it back; unreadable PWM: `m[k]` is always written
    and the point is recorded iff `m[k] = k` – each recorded point with the RPM register after the step. -/
theorem C15_curve_spec (ph : Phys) (cfg : FanCfg) (fan : FanSt) (src : MapSrc) (m : List (Int × Int))
    (hm : m.Pairwise (fun a b => a.1 < b.1)) (c : CtlSt) (hc : c.pwmMap = some (src, m))
    (hd : c.distinct = extractKeys m) (r : Regs) :
    let o := measureLoop ph cfg fan c.distinct c r []
    o.res = .ok () ∧ o.data = (measSpec ph cfg.pwmRead m (extractKeys m) r).2 ∧
    o.regs = (measSpec ph cfg.pwmRead m (extractKeys m) r).1 := by
  have hs := extractKeys_sorted m hm
  obtain ⟨h1, h2, h3, _⟩ := measureLoop_spec ph cfg fan src m _ hs c.distinct c r [] hc hd
    (by intro k hk; rw [← hd]; exact hk) (by rw [hd]; exact hs) (by intro p hp; simp at hp)
  rw [hd] at h1 h2 h3 ⊢
  exact ⟨h1, by simpa using h2, h3⟩

/-- On a device with an idempotent response, started from a state the device can be in: the key set of the
    measured curve is exactly the set of targets whose map output the device reads back, each with the RPM the
    fan settles at for that output; targets are never invented (`Sublist`), and a target that is read back is
    never lost – from ANY register state. -/
theorem C15_curve_keys (ph : Phys) (m : List (Int × Int)) (ks : List Int) (r : Regs) :
    ((∀ v, ph.resp (ph.resp v) = ph.resp v) → ph.resp r.pwm = r.pwm → r.rpm = ph.rpmOf r.pwm →
      (measSpec ph true m ks r).2 =
        (ks.filter fun k => decide (ph.resp (mapGet m k) = mapGet m k)).map
          (fun k => (k, ofInt (ph.rpmOf (mapGet m k))))) ∧
    ((measSpec ph true m ks r).2.map Prod.fst).Sublist ks ∧
    (∀ k ∈ ks, ph.resp (mapGet m k) = mapGet m k → k ∈ (measSpec ph true m ks r).2.map Prod.fst) :=
  ⟨fun hi h1 h2 => (measSpec_idem ph m hi ks r h1 h2).1, measSpec_sublist ph true m ks r,
   measSpec_complete ph m ks r⟩

/-- The first `Run` / `fan init` of the fan of `C15_map_reflects_device`: the curve attached and STORED is
    `sweptCurve`: every distinct target `k` of the swept map with `rpmOf (resp k)` – never empty, so
    `AttachFanRpmCurveData` accepts it: the decision model's assumption `devOk` is a theorem here, no panic site
    is reached, and `Run` goes on to regulation. -/
theorem C15_curve_delivers (indef : Int) (ph : Phys) (hn : ph.Nice) (cfg : FanCfg)
    (hk : cfg.kind = .hwmon) (hr : cfg.hasRpm = true) (hpr : cfg.pwmRead = true) (hcm : cfg.cfgMap = none)
    (st : DStore) (hsr : st.rpm = none) (hsm : st.map = none) (r : Regs) :
    (startD indef ph cfg st r).store.rpm = some (sweptCurve ph) ∧ (startD indef ph cfg st r).ok = true ∧
    (startD indef ph cfg st r).crash = none ∧
    (initD indef ph cfg r).store.rpm = some (sweptCurve ph) ∧ (initD indef ph cfg r).devOk = true ∧
    (initD indef ph cfg r).crash = none ∧
    sweptCurve ph ≠ [] ∧
    (sweptCurve ph).map Prod.fst = extractKeys (sweptMap ph.resp) := by
  obtain ⟨h1, h2, _, h4, _, _⟩ := startD_swept indef ph hn cfg hk hr hpr hcm st hsr hsm r
  obtain ⟨_, i2, i3, _, i5, _, _⟩ := initD_swept indef ph hn cfg hk hr hpr hcm r
  refine ⟨h4, h1, h2, i5, i3, i2, sweptCurve_ne_nil ph, ?_⟩
  simp [sweptCurve, List.map_map, Function.comp_def]

/-- The limits the next `Run` derives from the stored curve (`LoadFanPwmData` + `AttachFanRpmCurveData` on a
    fresh fan): configured values win; the others are C13's `specStart` / `specMax` of the stored curve. For the
    curve of a harness device (quantiser `q`, rotation from register value `spinAt` on) with top target
    `T = ⌊255/q⌋·q` (255 for `q ≤ 1`): if the top target rotates (`spinAt ≤ T`, `0 < T`) then max PWM = `T` and
    start PWM = the spin threshold rounded up to a target (the lowest positive target ≥ `spinAt`); if it does
    not, both are 255. -/
theorem C15_curve_limits (indef q s : Int) (cfg : FanCfg) (hk : cfg.kind = .hwmon) :
    let d := sweptCurve (harnessPhys q s)
    let T := topTarget q
    limitsOf indef cfg d = some
      (if cfg.neverStop then
          cfg.cfgMin.getD (if cfg.cfgStart.getD 255 < 255 then cfg.cfgStart.getD 255 else specStart indef d)
        else 0,
       cfg.cfgStart.getD (specStart indef d), cfg.cfgMax.getD (specMax indef d)) ∧
    (s ≤ T ∧ 0 < T →
      specMax indef d = T ∧
      specStart indef d ∈ extractKeys (sweptMap (quantResp q)) ∧ s ≤ specStart indef d ∧ 0 < specStart indef d ∧
      ∀ k ∈ extractKeys (sweptMap (quantResp q)), s ≤ k → 0 < k → specStart indef d ≤ k) ∧
    (¬ (s ≤ T ∧ 0 < T) → specStart indef d = 255 ∧ specMax indef d = 255) := by
  refine ⟨limitsOf_hwmon indef cfg hk _ (sweptCurve_ne_nil _) (sweptCurve_sorted _) (sweptCurve_le255 _), ?_⟩
  exact harness_limits indef q s

/-- file / cmd fans: constant limits 0 / 1 / 255 whatever is stored -/
theorem C15_curve_limits_file (indef : Int) (cfg : FanCfg) (hk : cfg.kind ≠ .hwmon) (d : List (Int × F64)) :
    limitsOf indef cfg d = some (0, 1, 255) := limitsOf_other indef cfg hk d

/-- non-vacuity, quantiser 32, rotation from 40 on: targets 0, 32, …, 224; start 64, max 224 – for every `indef` -/
example (indef : Int) :
    specMax indef (sweptCurve (harnessPhys 32 40)) = 224 ∧ specStart indef (sweptCurve (harnessPhys 32 40)) = 64 := by
  have hT : topTarget 32 = 224 := by decide
  obtain ⟨h, _⟩ := harness_limits indef 32 40
  rw [hT] at h
  obtain ⟨h1, h2, h3, h4, h5⟩ := h ⟨by norm_num, by norm_num⟩
  refine ⟨h1, ?_⟩
  have hm : (64 : Int) ∈ extractKeys (sweptMap (quantResp 32)) := by decide
  have hle := h5 64 hm (by norm_num) (by norm_num)
  obtain ⟨_, _, hc⟩ := (mem_targets_quant 32 _).mp h2
  rcases hc with hc | ⟨c, hc⟩
  · omega
  · omega

/-! ### (d) `waitForFanToSettle` -/

/-- On a stable device (every poll reads the same RPM `r`) with an integer threshold `t ≥ 1`
    (`maxRpmDiffForSettledFan`; default 10, the harness uses 20) the wait ends: after exactly 10 polls when
    `|r| < t`, after 11 otherwise (the first difference is the RPM itself: it has to leave the 10-point window) –
    on the `F64` model, window of 10 filled with `2·t`. -/
theorem C15_settle_terminates (t r : Int) (ht : 0 < t) (htb : t ≤ 2 ^ 50) (hr : |r| ≤ 2 ^ 50) (f : Nat) :
    settle (ofInt t) (fun _ => some r) (f + 11) = some (if |r| < t then 10 else 11) := by
  rw [b_ofInt t (by rw [abs_le]; constructor <;> omega)]
  exact settle_stable t r ht htb hr f

/-- FINDING (outside C15's quantifier): with `maxRpmDiffForSettledFan: 0` the wait never ends, whatever the fan
    does; neither does it for an RPM input that fails on every read (`continue` without progress). -/
theorem C15_settle_can_hang (rd : Nat → Option Int) (hrd : ∀ n v, rd n = some v → |v| ≤ 2 ^ 50) (fuel : Nat) :
    settle (ofInt 0) rd fuel = none ∧ settle (ofInt 20) (fun _ => none) fuel = none := by
  refine ⟨?_, settle_unreadable _ (by decide +kernel) fuel⟩
  rw [b_ofInt 0 (by norm_num)]
  exact settle_zero_threshold rd hrd fuel

example : settle (ofInt 20) (fun _ => some 0) 50 = some 10 ∧ settle (ofInt 20) (fun _ => some 640) 50 = some 11 ∧
    settle (ofInt 20) (fun n => some (if n < 3 then 100 * n else 300)) 50 = some 14 := by decide +kernel

/-! ### (e) the data-carrying runs refine the decision model -/

/-- Erasing the data (`DOut.abs`) of `startD` / `initD` / `resetD` gives exactly `Startup.start` / `init` /
    `reset` on the erased store, with the decision model's input `devOk` instantiated by "the measurement (if
    any) delivered"; stored curves stay attachable (`WF`: a hwmon fan's stored curve is never empty). So every
    theorem of Props/C15.lean and Props/C16.lean about one step of the decision model holds of these runs. -/
theorem C15_data_refines (indef : Int) (ph : Phys) (cfg : FanCfg) (st : DStore) (r : Regs) (hwf : st.WF cfg) :
    (startD indef ph cfg st r).abs = start (cfg.decl (startD indef ph cfg st r).devOk) st.abs ∧
    (startD indef ph cfg st r).store.WF cfg ∧
    (initD indef ph cfg r).abs = init (cfg.decl (initD indef ph cfg r).devOk) st.abs ∧
    (initD indef ph cfg r).store.WF cfg ∧
    (resetD cfg r).abs = reset (cfg.decl true) st.abs ∧ (resetD cfg r).store.WF cfg ∧
    ({} : DStore).WF cfg :=
  ⟨(startD_abs indef ph cfg st r hwf).1, (startD_abs indef ph cfg st r hwf).2,
   (initD_abs indef ph cfg st r).1, (initD_abs indef ph cfg st r).2,
   (resetD_abs cfg r true st).1, (resetD_abs cfg r true st).2, by intro _; simp⟩

/-- e.g. C15's core, on the data-carrying run: a start puts the fan through an analysis only if one of its two
    entries was missing – whatever the device, its registers and the stored contents -/
theorem C15_data_start_analysed_missing (indef : Int) (ph : Phys) (cfg : FanCfg) (st : DStore) (r : Regs)
    (hwf : st.WF cfg) (h : (startD indef ph cfg st r).abs.analysed = true) :
    st.rpm = none ∨ st.map = none := by
  rw [(startD_abs indef ph cfg st r hwf).1] at h
  have := start_analysed_missing _ _ h
  simp only [Store.missing, DStore.abs, Bool.or_eq_true, Bool.not_eq_true', Option.isSome_eq_false_iff,
    Option.isNone_iff_eq_none, Option.map_eq_none_iff] at this
  simpa using this

/-- a full first start of the harness's quantiser-32 fan, evaluated by the kernel: the stored map is the swept
    map, the stored curve has the 8 targets as keys, the run reaches regulation -/
example :
    let o := startD (-9223372036854775808) (harnessPhys 32 40) {} {} {}
    o.ok = true ∧ o.store.map.map (·.2) = some (sweptMap (quantResp 32)) ∧
    o.store.rpm.map (·.map Prod.fst) = some [0, 32, 64, 96, 128, 160, 192, 224] ∧
    o.abs.swept = true ∧ o.abs.measured = true ∧ (o.regs.pwm, o.regs.rpm, o.regs.mode) = (96, 960, 2) := by
  decide +kernel

#print axioms C15_map_sweep
#print axioms C15_map_default_identity
#print axioms C15_map_reflects_device
#print axioms C15_map_reflects_device_file
#print axioms C15_map_readsBack
#print axioms C15_map_quant_idem
#print axioms C15_distinct_first_of_runs
#print axioms C15_distinct_targets
#print axioms C15_curve_spec
#print axioms C15_curve_keys
#print axioms C15_curve_delivers
#print axioms C15_curve_limits
#print axioms C15_curve_limits_file
#print axioms C15_settle_terminates
#print axioms C15_settle_can_hang
#print axioms C15_data_refines
#print axioms C15_data_start_analysed_missing

end Fan2go
