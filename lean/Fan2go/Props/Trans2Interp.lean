import Fan2go.Generated.Trans2
import Fan2go.Props.Trans
namespace Fan2go
open F64


namespace InterpProof
open Go

theorem bind_ok {α β} (a : α) (f : α → Res β) : (Res.ok a >>= f) = f a := rfl
theorem bind_panic {α β} (p : String) (f : α → Res β) : (Res.panic p >>= f) = .panic p := rfl
theorem pure_eq {α} (a : α) : (pure a : Res α) = .ok a := rfl

/-- with strictly increasing keys, looking up the key of an entry gives the value of that entry -/
theorem mapGet_at (pre rest : List (Int × F64)) (x : Int) (y : F64)
    (h : SortedMap (pre ++ (x, y) :: rest)) : Go.mapGet (pre ++ (x, y) :: rest) x = y := by
  unfold SortedMap at h
  rw [List.pairwise_append] at h
  have hpre : pre.find? (fun p => p.1 == x) = none := by
    rw [List.find?_eq_none]
    intro a ha
    have := h.2.2 a ha (x, y) (List.mem_cons_self)
    simp only [beq_iff_eq]
    simp only at this
    omega
  unfold Go.mapGet
  rw [List.find?_append, hpre]
  simp

/-- the i-th sorted key is the key of the i-th entry -/
theorem idx_at (xs : Array Int) (steps pre rest : List (Int × F64)) (x : Int) (y : F64) (i : Int)
    (hx : xs = Go.sortedKeys steps) (hs : steps = pre ++ (x, y) :: rest) (hi : i = pre.length) :
    Go.idx xs i = .ok x := by
  subst hx hs hi
  unfold Go.idx Go.sortedKeys
  have h1 : (pre.length : Int) < ((List.map (fun x => x.fst) (pre ++ (x, y) :: rest)).toArray.size : Nat) := by
    simp only [List.size_toArray, List.length_map, List.length_append, List.length_cons]; omega
  rw [if_pos ⟨by omega, h1⟩]
  simp

theorem len_eq (xs : Array Int) (steps : List (Int × F64)) (hx : xs = Go.sortedKeys steps) :
    Go.len xs = steps.length := by
  subst hx; simp [Go.len, Go.sortedKeys]

theorem loop_eq (indef : Int) (steps : List (Int × F64)) (input : F64) (xs : Array Int)
    (hx : xs = Go.sortedKeys steps) (h : SortedMap steps)
    (suf : List (Int × F64)) :
    ∀ (pre : List (Int × F64)) (fuel : Nat) (first : Bool) (i : Int), steps = pre ++ suf → suf ≠ [] → suf.length ≤ fuel →
      i = pre.length → (first = true ↔ i = 0) →
    ∃ s, Go.loopFuel
            (fun _ __s =>
              if ¬__s.snd < Go.len xs - 1 then pure (ForInStep.done (none, __s.snd))
              else do
                let __do_lift ← Go.idx xs __s.snd
                let __do_lift_1 ← Go.idx xs (__s.snd + 1)
                if input.le (ofInt __do_lift) = true ∧ __s.snd = 0 then
                    pure (ForInStep.done (some (Go.mapGet steps __do_lift), __s.snd))
                  else
                    if input.ge (ofInt __do_lift_1) = true then pure (ForInStep.yield (none, __s.snd + 1))
                    else
                      if input.feq (ofInt __do_lift) = true then
                        pure (ForInStep.done (some (Go.mapGet steps __do_lift), __s.snd))
                      else
                        pure
                          (ForInStep.done
                            (some
                                (Go.mapGet steps __do_lift +
                                    Generated.util_Ratio indef input (ofInt __do_lift) (ofInt __do_lift_1) *
                                      (Go.mapGet steps __do_lift_1 - Go.mapGet steps __do_lift)).toF32,
                              __s.snd)))
            fuel ((none : Option F64), i) = .ok s ∧
      (s.1 = some (interpLoop first suf input) ∨
       (s.1 = none ∧ (do let k ← Go.idx xs (Go.len xs - 1); pure (Go.mapGet steps k)) =
          Res.ok (interpLoop first suf input))) := by
  induction suf with
  | nil => intro pre fuel first i _ hne; exact absurd rfl hne
  | cons p rest ih =>
    intro pre fuel first i hs _ hfuel hi hfirst
    obtain ⟨x, y⟩ := p
    cases fuel with
    | zero => simp at hfuel
    | succ n =>
    have hlen := len_eq xs steps hx
    have hidx := idx_at xs steps pre rest x y i hx hs hi
    have hget : Go.mapGet steps x = y := by rw [hs]; rw [hs] at h; exact mapGet_at pre rest x y h
    unfold Go.loopFuel
    cases rest with
    | nil =>
      have hc : ¬ (i < Go.len xs - 1) := by
        rw [hlen, hs, hi]; simp
      have hlast : Go.len xs - 1 = i := by rw [hlen, hs, hi]; simp
      have hidxl : Go.idx xs (Go.len xs - 1) = .ok x := by rw [hlast]; exact hidx
      simp only [hc, not_false_eq_true, ↓reduceIte, pure_eq, bind_ok, hidxl, hget, interpLoop]
      exact ⟨_, rfl, Or.inr ⟨rfl, trivial⟩⟩
    | cons p' rest' =>
      obtain ⟨x', y'⟩ := p'
      have hs' : steps = (pre ++ [(x, y)]) ++ (x', y') :: rest' := by rw [hs]; simp
      have hi' : i + 1 = ((pre ++ [(x, y)]).length : Nat) := by rw [hi]; simp
      have hidx' := idx_at xs steps (pre ++ [(x, y)]) rest' x' y' (i + 1) hx hs' hi'
      have hget' : Go.mapGet steps x' = y' := by
        rw [hs']; rw [hs'] at h; exact mapGet_at _ rest' x' y' h
      have hc : i < Go.len xs - 1 := by
        rw [hlen, hs, hi]; simp; omega
      simp only [hc, not_true_eq_false, ↓reduceIte, pure_eq, bind_ok, hidx, hidx', hget, hget', interpLoop,
        trans_util_Ratio]
      by_cases h1 : input.le (ofInt x) = true ∧ i = 0
      · have hf : first = true := hfirst.2 h1.2
        subst hf
        simp only [h1, and_self, ↓reduceIte, Bool.and_self]
        exact ⟨_, rfl, Or.inl rfl⟩
      · have : ¬ (first && input.le (ofInt x)) = true := by
          rw [Bool.and_eq_true]; intro hh; exact h1 ⟨hh.2, hfirst.1 hh.1⟩
        simp only [h1, ↓reduceIte, this]
        by_cases h2 : input.ge (ofInt x') = true
        · simp only [h2, ↓reduceIte]
          exact ih (pre ++ [(x, y)]) n false (i + 1) hs' (List.cons_ne_nil _ _)
            (by simp only [List.length_cons] at hfuel ⊢; omega) hi'
            ⟨fun hh => absurd hh (by decide), fun hh => by omega⟩
        · simp only [h2]
          by_cases h3 : input.feq (ofInt x) = true
          · simp only [h3, ↓reduceIte]
            exact ⟨_, rfl, Or.inl rfl⟩
          · simp only [h3]
            exact ⟨_, rfl, Or.inl rfl⟩

end InterpProof

theorem trans2_util_CalculateInterpolatedCurveValue (indef : Int) (steps : List (Int × F64)) (ty : String) (input : F64)
    (h : SortedMap steps) :
    Generated2.util_CalculateInterpolatedCurveValue indef steps ty input = interp steps input := by
  unfold Generated2.util_CalculateInterpolatedCurveValue
  simp only [forIn, ForIn.forIn]
  cases hsteps : steps with
  | nil =>
    simp [interp, Go.loopFuel, Go.len, Go.sortedKeys, Go.idx, InterpProof.bind_ok, InterpProof.bind_panic, InterpProof.pure_eq]
  | cons p rest =>
    rw [← hsteps]
    obtain ⟨⟨r, j⟩, hs, hcase⟩ := InterpProof.loop_eq indef steps input (#[] ++ Go.sortedKeys steps) (by simp) h steps []
      (steps.length + 1) true 0 rfl (by rw [hsteps]; simp) (by omega) rfl (by simp)
    have e : interp steps input = Res.ok (interpLoop true steps input) := by rw [hsteps]; rfl
    rw [e, hs]
    rcases hcase with hr | ⟨hr, hk⟩
    · simp only at hr; subst hr; rfl
    · simp only at hr; subst hr; exact hk

#print axioms trans2_util_CalculateInterpolatedCurveValue
end Fan2go
