/-
  C11 "A configuration that validates can be run".

  Model: `Model/Config.lean` (`validateConfig`, check by check after validation.go; the Tarjan
  SCC test is modelled by its specification `hasCycle`) and `Model/Curves.lean` (`evalCurve`).
  Tie to the code: stream `cfg` (go/harness/config.go vs Driver/ConfigStream.lean).

  Result (for the tree with the fixes 6a042ff "reject function curves without members and linear
  curves with empty steps" and ffb7e7d "reject an empty controlAlgorithm block"): the property
  HOLDS. Acceptance implies unique ids, one backend per entry, resolvable references, an acyclic
  member graph, non-empty member lists / step maps and an instantiable control algorithm
  (`C11_sound_*`); every curve of an accepted configuration evaluates without a panic and within
  the recursion budget (`C11_eval_total`); every configuration assembled from the documented forms
  is accepted (`C11_complete`).

  History: before the fixes `C11_eval_total_statement` was REFUTED (theorems `C11_eval_refuted`,
  `_delta`, `_steps` of the previous revision of this file): the validator accepted
  `function: {type: average|delta, curves: []}` and `linear: {steps: []}`, whose evaluation panics
  (integer divide by zero / index out of range), and `controlAlgorithm: {}`, which left the
  controller's control loop nil. The witnesses are kept below; they are now rejected.
-/
import Fan2go.Proofs.Config
namespace Fan2go
namespace C11
open Fan2go.Cfg Relation

/-! ### soundness of acceptance (all configurations, no size bound) -/

/-- accepted ⇒ fan ids, sensor ids and curve ids are each pairwise distinct -/
theorem C11_sound_ids (c : Configuration) (permOk : Bool)
    (h : validateConfig c permOk = .ok ()) : uniqueIds c := accepted_uniqueIds h

/-- accepted ⇒ every sensor, curve and fan entry has exactly one sub-configuration -/
theorem C11_sound_backend (c : Configuration) (permOk : Bool)
    (h : validateConfig c permOk = .ok ()) : oneBackend c := accepted_oneBackend h

/-- accepted ⇒ every linear/pid sensor id, every function member id and every fan curve id
    names an existing entry -/
theorem C11_sound_refs (c : Configuration) (permOk : Bool)
    (h : validateConfig c permOk = .ok ()) : refsResolve c := accepted_refsResolve h

/-- accepted ⇒ no function curve lists itself (the explicit check) -/
theorem C11_sound_no_self (c : Configuration) (permOk : Bool)
    (h : validateConfig c permOk = .ok ()) : NoSelfRef c := accepted_noSelfRef h

/-- The cycle criterion the model uses in place of Tarjan's algorithm, as a graph statement:
    `hasCycle g` ⇔ two DISTINCT vertices reach each other (⇔ some SCC has more than one vertex). -/
theorem C11_cycle_criterion (g : Graph) :
    hasCycle g = true ↔ ∃ u v, u ≠ v ∧ TransGen (Edge g) u v ∧ TransGen (Edge g) v u :=
  hasCycle_iff g

/-- accepted ⇒ no function curve reaches itself through members, in any number of steps
    (self loops by the explicit check, longer cycles by the SCC criterion). General: all graphs. -/
theorem C11_sound_acyclic (c : Configuration) (permOk : Bool)
    (h : validateConfig c permOk = .ok ()) : Acyclic c := accepted_acyclic h

/-! ### "can be run" -/

/-- The promise behind "Config looks good": an accepted configuration can be instantiated and
    every curve evaluated, for all sensor tables that define every sensor entry with finite values,
    within the recursion budget `number of curves + 1`, without a panic. -/
def C11_eval_total_statement : Prop :=
  ∀ (c : Configuration) (permOk : Bool), validateConfig c permOk = .ok () →
    ∀ (indef : Int) (sensors : SensorTable) (now : Int), SensorsDefined c sensors →
      ∀ cc ∈ c.curves, ∀ site,
        (evalCurve indef sensors now (c.curves.length + 1) (toCurveTable c) cc.id).2 ≠ .panic site

def oneSensor : List SensorConfig := [{ id := "s", file := true }]
def oneFan (curve : String) : List FanConfig := [{ id := "fan", curve := curve, file := some false }]

/-- `function: {type: average, curves: []}` (or `curves:` absent) -/
def cexAverage : Configuration :=
  { sensors := oneSensor, fans := oneFan "c",
    curves := [{ id := "c", function := some { type := "average", curves := [] } }] }

/-- `function: {type: delta, curves: []}` -/
def cexDelta : Configuration :=
  { sensors := oneSensor, fans := oneFan "c",
    curves := [{ id := "c", function := some { type := "delta", curves := [] } }] }

/-- `linear: {sensor: s, steps: []}`: decodes to an empty NON-nil map -/
def cexSteps : Configuration :=
  { sensors := oneSensor, fans := oneFan "c",
    curves := [{ id := "c", linear := some { sensor := "s", steps := some [] } }] }

def cexSensors : SensorTable := [("s", { avg := F64.zero, value := .ok F64.zero })]

/-- the former witnesses are now rejected by the two checks added to `validateCurves` -/
theorem cexAverage_rejected : validateConfig cexAverage true = .error (.curveNoMembers "c") := rfl
theorem cexDelta_rejected : validateConfig cexDelta true = .error (.curveNoMembers "c") := rfl
theorem cexSteps_rejected : validateConfig cexSteps true = .error (.curveEmptySteps "c") := rfl

theorem cexSensors_defined (c : Configuration) (h : c.sensors = oneSensor) :
    SensorsDefined c cexSensors := by
  intro s hs
  rw [h] at hs
  simp only [oneSensor, List.mem_singleton] at hs
  subst hs
  exact ⟨_, rfl, rfl, _, rfl, rfl⟩

theorem cexAverage_panics (indef now : Int) :
    (evalCurve indef cexSensors now 2 (toCurveTable cexAverage) "c").2
      = .panic "integer-divide-by-zero" := by
  simp [evalCurve, evalMembers, evalFn, toCurveTable, cexAverage, toCurve, CurveTable.get?]

theorem cexDelta_panics (indef now : Int) :
    (evalCurve indef cexSensors now 2 (toCurveTable cexDelta) "c").2
      = .panic "index-out-of-range" := by
  simp [evalCurve, evalMembers, evalFn, toCurveTable, cexDelta, toCurve, CurveTable.get?]

theorem cexSteps_panics (indef now : Int) :
    (evalCurve indef cexSensors now 2 (toCurveTable cexSteps) "c").2
      = .panic "index-out-of-range" := by
  simp [evalCurve, toCurveTable, cexSteps, toCurve, CurveTable.get?, SensorTable.get?, cexSensors,
    linSteps, interp, bind, Res.bind]

/-- With the two conditions as explicit hypotheses (every function curve has at least one member,
    no linear curve has an empty non-nil step map) every curve of an accepted configuration
    evaluates without a panic and within the recursion budget – nested function curves of any depth
    included. (Proved before the fix; now a lemma of `C11_eval_total`.) -/
theorem C11_eval_total_partial (c : Configuration) (permOk : Bool)
    (h : validateConfig c permOk = .ok ())
    (hne : FunctionsNonempty c) (hst : NoEmptySteps c)
    (indef : Int) (sensors : SensorTable) (now : Int) (hs : SensorsDefined c sensors) :
    ∀ cc ∈ c.curves, ∀ site,
      (evalCurve indef sensors now (c.curves.length + 1) (toCurveTable c) cc.id).2 ≠ .panic site :=
  eval_total_of_accepted c permOk h hne hst indef sensors now hs

/-- accepted ⇒ every function curve has ≥ 1 member and no linear curve has an empty step map
    (the two checks added by the fix) -/
theorem C11_sound_nonempty (c : Configuration) (permOk : Bool)
    (h : validateConfig c permOk = .ok ()) : FunctionsNonempty c ∧ NoEmptySteps c :=
  ⟨accepted_functionsNonempty h, accepted_noEmptySteps h⟩

/-- accepted ⇒ every fan's `controlAlgorithm`, if present, has `direct` or `pid` set: the control
    loop can be instantiated (`initializeFanControllers` never leaves it nil) -/
theorem C11_sound_algo (c : Configuration) (permOk : Bool)
    (h : validateConfig c permOk = .ok ()) : AlgoInstantiable c := accepted_algoInstantiable h

/-- THE RUN HALF, at full strength: every curve of every accepted configuration evaluates, for
    all sensor tables defining every sensor entry with finite values, without a panic and within
    the recursion budget `number of curves + 1`. -/
theorem C11_eval_total : C11_eval_total_statement := by
  intro c permOk h indef sensors now hs
  exact C11_eval_total_partial c permOk h (accepted_functionsNonempty h) (accepted_noEmptySteps h)
    indef sensors now hs

/-! ### completeness for the documented forms -/

/-- every configuration assembled only from the documented forms (`Documented`: three sensor
    kinds, three fan kinds, linear min/max, linear steps with ≥ 1 entry, pid with gains not all
    zero, the six function types with ≥ 1 member, `controlAlgorithm` absent | `direct` | `pid` |
    `{direct: {maxPwmChangePerCycle ≥ 1}}` | `{pid: {p,i,d}}` not all zero, hwmon fan with exactly
    one of index / rpmChannel ≥ 1) whose references resolve, whose ids are unique and whose
    member graph is acyclic is accepted. -/
theorem C11_complete (c : Configuration) (permOk : Bool) (hd : Documented c)
    (hr : refsResolve c) (hu : uniqueIds c) (ha : Acyclic c) (hp : permOk = true) :
    validateConfig c permOk = .ok () := documented_accepted c permOk hd hr hu ha hp

/-! ### non-vacuity -/

/-- the shipped fan2go.yaml (fans cpu / in_front / out_back, three hwmon sensors, a step curve,
    two min/max curves and `case_avg_curve = average(...)`) -/
def shipped : Configuration :=
  { sensors := [{ id := "cpu_package", hwmon := some 1 }, { id := "mainboard", hwmon := some 3 },
                { id := "sata_ssd", hwmon := some 1 }],
    curves := [
      { id := "cpu_curve",
        linear := some { sensor := "cpu_package", steps := some [(40, .fin 0), (50, .fin 50), (80, .fin 255)] } },
      { id := "mainboard_curve", linear := some { sensor := "mainboard", min := 40, max := 80 } },
      { id := "ssd_curve", linear := some { sensor := "sata_ssd", min := 40, max := 70 } },
      { id := "case_avg_curve",
        function := some { type := "average", curves := ["cpu_curve", "mainboard_curve", "ssd_curve"] } }],
    fans := [
      { id := "cpu", curve := "cpu_curve", hwmon := some { rpmChannel := 1, pwmChannel := 1 },
        controlAlgorithm := some { direct := some (some 10) } },
      { id := "in_front", curve := "case_avg_curve", hwmon := some { rpmChannel := 4 },
        controlAlgorithm := some { direct := some none } },
      { id := "out_back", curve := "case_avg_curve", hwmon := some { rpmChannel := 5 } }] }

theorem shipped_accepted : validateConfig shipped true = .ok () := rfl
theorem shipped_documented : Documented shipped := by decide

/-- the hypotheses of the soundness theorems and of `C11_eval_total_partial` are satisfiable -/
example : uniqueIds shipped ∧ oneBackend shipped ∧ refsResolve shipped ∧ Acyclic shipped :=
  ⟨C11_sound_ids _ _ shipped_accepted, C11_sound_backend _ _ shipped_accepted,
   C11_sound_refs _ _ shipped_accepted, C11_sound_acyclic _ _ shipped_accepted⟩

example : FunctionsNonempty shipped ∧ NoEmptySteps shipped := by
  constructor
  · intro cc hcc f hf
    simp only [shipped, List.mem_cons, List.not_mem_nil, or_false] at hcc
    rcases hcc with rfl | rfl | rfl | rfl <;> simp at hf
    subst hf; simp
  · intro cc hcc l hl
    simp only [shipped, List.mem_cons, List.not_mem_nil, or_false] at hcc
    rcases hcc with rfl | rfl | rfl | rfl <;> simp at hl <;> subst hl <;> simp

def sv50 : SensorView := { avg := .fin 50000, value := .ok (.fin 50000) }

example : SensorsDefined shipped [("cpu_package", sv50), ("mainboard", sv50), ("sata_ssd", sv50)] := by
  intro s hs
  simp only [shipped, List.mem_cons, List.not_mem_nil, or_false] at hs
  rcases hs with rfl | rfl | rfl <;> exact ⟨_, rfl, rfl, _, rfl, rfl⟩

/-- `controlAlgorithm: pid` decodes to the default gains 0.3 / 0.02 / 0.005 – a documented form -/
example : docCtrl (some { pid := some (.fin (5404319552844595 / 18014398509481984),
    .fin (5764607523034235 / 288230376151711744), .fin (5764607523034235 / 1152921504606846976)) }) = true := by
  simp [docCtrl, allZero, F64.feq, F64.zero]

/-- the hypotheses of `C11_complete` are satisfiable, and its conclusion agrees with running
    the validator -/
example : validateConfig shipped true = .ok () :=
  C11_complete shipped true shipped_documented (C11_sound_refs _ _ shipped_accepted)
    (C11_sound_ids _ _ shipped_accepted) (C11_sound_acyclic _ _ shipped_accepted) rfl

/-- the validator does reject: a 2-cycle, a 3-cycle behind a DAG node, a self reference, a
    dangling member, a duplicate id -/
def fnCurve (id : String) (ms : List String) : CurveConfig :=
  { id := id, function := some { type := "maximum", curves := ms } }
def leaf : CurveConfig := { id := "l", linear := some { sensor := "s", min := 30, max := 70 } }
def withCurves (cs : List CurveConfig) : Configuration :=
  { sensors := oneSensor, curves := cs, fans := oneFan "a" }

example : validateConfig (withCurves [leaf, fnCurve "a" ["b"], fnCurve "b" ["l", "a"]]) true
    = .error .curveCycle := rfl
example : validateConfig (withCurves [leaf, fnCurve "a" ["b", "l"], fnCurve "b" ["c"],
    fnCurve "c" ["d"], fnCurve "d" ["b"]]) true = .error .curveCycle := rfl
example : validateConfig (withCurves [leaf, fnCurve "a" ["l", "a"]]) true
    = .error (.curveSelfRef "a") := rfl
example : validateConfig (withCurves [leaf, fnCurve "a" ["l", "zz"]]) true
    = .error (.curveNoCurve "a") := rfl
example : validateConfig (withCurves [leaf, fnCurve "a" ["l"], leaf]) true
    = .error (.dupCurve "l") := rfl
/-- a diamond (DAG with a shared descendant) is accepted -/
example : validateConfig (withCurves [leaf, fnCurve "a" ["b", "c"], fnCurve "b" ["d"],
    fnCurve "c" ["d"], fnCurve "d" ["l"]]) true = .ok () := rfl
/-- position of the new checks relative to their neighbours: unsupported type wins over empty
    members; unknown sensor wins over empty steps; unknown curve wins over `controlAlgorithm: {}`,
    which wins over a bad hwmon block -/
example : validateConfig (withCurves [leaf, { id := "a", function := some { type := "median", curves := [] } }]) true
    = .error (.curveBadFnType "a") := rfl
example : validateConfig (withCurves [leaf, { id := "a", function := some { type := "sum", curves := [] } }]) true
    = .error (.curveNoMembers "a") := rfl
example : validateConfig (withCurves [{ id := "a", linear := some { sensor := "zz", steps := some [] } }]) true
    = .error (.curveNoSensor "a") := rfl
example : validateConfig (withCurves [{ id := "a", linear := some { sensor := "s", steps := some [] } }]) true
    = .error (.curveEmptySteps "a") := rfl
def emptyAlgoFan (curve : String) : Configuration :=
  { sensors := oneSensor, curves := [leaf],
    fans := [{ id := "fan", curve := curve, controlAlgorithm := some {}, hwmon := some {} }] }
example : validateConfig (emptyAlgoFan "zz") true = .error (.fanNoCurve "fan") := rfl
example : validateConfig (emptyAlgoFan "l") true = .error (.fanEmptyAlgo "fan") := rfl

/-- the permission error wins over a fan error (`err = validateFans(config)` is not returned
    immediately) -/
def cmdSensorBadFan : Configuration :=
  { sensors := [{ id := "s", cmd := true }], curves := [leaf], fans := [{ id := "fan", curve := "l" }] }
example : validateConfig cmdSensorBadFan false = .error .configPerm := rfl
example : validateConfig cmdSensorBadFan true = .error (.fanNoBackend "fan") := rfl

end C11
end Fan2go

open Fan2go.C11 in
#print axioms C11_sound_ids
open Fan2go.C11 in
#print axioms C11_sound_backend
open Fan2go.C11 in
#print axioms C11_sound_refs
open Fan2go.C11 in
#print axioms C11_sound_no_self
open Fan2go.C11 in
#print axioms C11_cycle_criterion
open Fan2go.C11 in
#print axioms C11_sound_acyclic
open Fan2go.C11 in
#print axioms C11_sound_nonempty
open Fan2go.C11 in
#print axioms C11_sound_algo
open Fan2go.C11 in
#print axioms C11_eval_total
open Fan2go.C11 in
#print axioms C11_eval_total_partial
open Fan2go.C11 in
#print axioms C11_complete
