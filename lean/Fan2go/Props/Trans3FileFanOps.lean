/-
  Translation tie, third generation, fan level (file fans): the record `Generated3.FileFanOps` instantiated on the model
  world, and (Props/Trans3FileFan.lean) the theorems that for a file fan the fan-level primitives `modelOps` plugs into the
  controller are what the translated `fans.FileFan` methods compute.  Core Lean only.
-/
import Fan2go.Props.Trans3FanOps
namespace Fan2go
open F64

/-- `util.ReadIntFromFile` as a file fan sees it: every failure is just an error ("read") -/
def fileReadReg (m : ReadMode) (v : Int) : Int × Option String :=
  match m with
  | .ok => (v, none)
  | .errPerm => (-1, some "read")
  | .errOther x => (x, some "read")

def fileDevRead (path : String) (d : Dev) : Int × Option String :=
  if path = pwmPath then fileReadReg d.pwmRead d.pwm
  else if path = rpmPath then (if d.hasRpm then fileReadReg d.rpmRead d.rpm else (-1, some "read"))
  else (-1, some "read")

/-- the record of operations of a `FileFan` over the model world (`rpmPath` is configured iff the device has an RPM
    input; `~` expansion is not modelled) -/
def fileFanOps : Generated3.FileFanOps World where
  readIntFromFile := fun path w => (.ok (fileDevRead path w.dev), w)
  writeIntToFileAtomic := fun v path w =>
    if path = pwmPath then (match fanSetPwm w.dev v with | (d', r) => (.ok (t3ErrOf r), { w with dev := d' }))
    else (.ok (some "write"), w)
  expandHome := fun p w => (.ok (p, none), w)
  get_Config_File_Path := fun w => (.ok pwmPath, w)
  get_Config_File_RpmPath := fun w => (.ok (if w.dev.hasRpm then rpmPath else ""), w)
  get_Config_NeverStop := fun w => (.ok w.fan.neverStop, w)
  -- `FileFan.Pwm` caches the last reading for the REST API only: not part of the model
  get_Pwm := fun w => (.ok w.dev.pwm, w)
  set_Pwm := fun _ w => (.ok (), w)
  -- `FileFan.Rpm` is the fan's RPM "average"
  get_Rpm := fun w => (.ok w.fan.rpmInt, w)
  set_Rpm := fun v w => (.ok (), { w with fan := { w.fan with rpmInt := v } })

end Fan2go
