import Fan2go.Props.Trans3Ops
import Fan2go.Props.Trans
import Fan2go.Props.Trans2FindClosest
namespace Fan2go
open F64
set_option linter.unusedSimpArgs false

namespace T3A

/-! ### running `GoM` terms -/

theorem run_bind {σ α β : Type} (m : GoM σ α) (f : α → GoM σ β) (s : σ) :
    (m >>= f) s = match m s with
      | (.ok a, s') => f a s'
      | (.err e, s') => (.err e, s')
      | (.panic p, s') => (.panic p, s') := rfl

theorem run_pure {σ α : Type} (a : α) (s : σ) : (pure a : GoM σ α) s = (.ok a, s) := rfl

theorem run_ite {σ α : Type} (c : Prop) [Decidable c] (a b : GoM σ α) (s : σ) :
    (if c then a else b) s = if c then a s else b s := by split <;> rfl

theorem run_liftRes {σ α : Type} (r : Res α) (s : σ) : (Go.liftRes r : GoM σ α) s = (r, s) := rfl

theorem run_deref_some {σ α : Type} (a : α) (s : σ) : (Go.deref (some a) : GoM σ α) s = (.ok a, s) := rfl

/-! ### the fields of `modelOps` -/

variable (indef : Int) (curve : Res Int) (now : Int) (w : World)

theorem ops_Supports0 :
    (modelOps indef curve now).fan_Supports 0 w = (.ok (supports w.fan w.dev .pwmSensor), w) := rfl
theorem ops_Supports1 :
    (modelOps indef curve now).fan_Supports 1 w = (.ok (supports w.fan w.dev .rpmSensor), w) := rfl
theorem ops_Supports2 :
    (modelOps indef curve now).fan_Supports 2 w = (.ok (supports w.fan w.dev .controlMode), w) := rfl
theorem ops_GetPwm : (modelOps indef curve now).fan_GetPwm w = goRead 0 (fanGetPwm w.dev) w := rfl
theorem ops_SetPwm (v : Int) :
    (modelOps indef curve now).fan_SetPwm v w
      = (.ok (t3ErrOf (fanSetPwm w.dev v).2), { w with dev := (fanSetPwm w.dev v).1 }) := rfl
theorem ops_GetMinPwm : (modelOps indef curve now).fan_GetMinPwm w = (.ok w.fan.getMin, w) := rfl
theorem ops_GetRpm : (modelOps indef curve now).fan_GetRpm w = modelGetRpm w := rfl
theorem ops_GetRpmAvg : (modelOps indef curve now).fan_GetRpmAvg w = (.ok w.fan.getRpmAvg, w) := rfl
theorem ops_SetRpmAvg (x : F64) :
    (modelOps indef curve now).fan_SetRpmAvg x w = (.ok (), { w with fan := w.fan.setRpmAvg indef x }) := rfl
theorem ops_SetPwmEnabled (v : Int) :
    (modelOps indef curve now).fan_SetPwmEnabled v w
      = (.ok (t3ErrOf (setPwmEnabled w.fan w.dev v).2.1), { w with dev := (setPwmEnabled w.fan w.dev v).1 }) := rfl
theorem ops_UpdateCurve (p : Int) (x : F64) :
    (modelOps indef curve now).fan_UpdateFanRpmCurveValue p x w = modelUpdateCurveValue p x w := rfl
theorem ops_get_lastSet : (modelOps indef curve now).get_lastSetPwm w = (.ok w.ctl.lastSet, w) := rfl
theorem ops_get_pwmMap : (modelOps indef curve now).get_pwmMap w = (.ok w.ctl.pwmMap, w) := rfl
theorem ops_get_distinct :
    (modelOps indef curve now).get_pwmValuesWithDistinctTarget w = (.ok w.ctl.distinct, w) := rfl
theorem ops_get_offset : (modelOps indef curve now).get_minPwmOffset w = (.ok w.ctl.offset, w) := rfl
theorem ops_set_offset (v : Int) :
    (modelOps indef curve now).set_minPwmOffset v w
      = (.ok (), { w with ctl := { w.ctl with offset := v } }) := rfl
theorem ops_set_statsOffset (v : Int) :
    (modelOps indef curve now).set_stats_MinPwmOffset v w = (.ok (), w) := rfl
theorem ops_get_incr :
    (modelOps indef curve now).get_stats_IncreasedMinPwmCount w = (.ok w.ctl.increasedCount, w) := rfl
theorem ops_set_incr (v : Int) :
    (modelOps indef curve now).set_stats_IncreasedMinPwmCount v w
      = (.ok (), { w with ctl := { w.ctl with increasedCount := v } }) := rfl
theorem ops_get_origPwm : (modelOps indef curve now).get_originalPwmValue w = (.ok w.ctl.origPwm, w) := rfl
theorem ops_get_origMode : (modelOps indef curve now).get_originalPwmEnabled w = (.ok w.ctl.origMode, w) := rfl
theorem ops_get_window : (modelOps indef curve now).get_cfg_RpmRollingWindowSize w = (.ok w.rpmWindow, w) := rfl

/-! ### small facts about the model -/

/-- a Go map lookup (`Go.mapGet`, zero value of `int`) is the model's `mapGet` -/
theorem go_mapGet_eq (m : List (Int × Int)) (k : Int) : Go.mapGet m k = mapGet m k := by
  unfold Go.mapGet mapGet
  cases List.find? (fun p => p.1 == k) m <;> rfl

theorem go_mapGetOpt_eq (c : Ctl) (k : Int) : Go.mapGetOpt c.pwmMap k = applyPwmMapping c k := by
  unfold Go.mapGetOpt applyPwmMapping
  cases c.pwmMap
  · rfl
  · exact go_mapGet_eq _ _

theorem errOf_unit_eq_none (r : Res Unit) : t3ErrOf r = none ↔ r = .ok () := by
  cases r <;> simp [t3ErrOf]

/-- `fan.GetPwm()` of the model never panics -/
theorem fanGetPwm_cases (d : Dev) : (∃ v, fanGetPwm d = .ok v) ∨ (∃ e, fanGetPwm d = .err e) := by
  unfold fanGetPwm
  cases d.pwmRead
  · exact .inl ⟨_, rfl⟩
  · exact .inr ⟨_, rfl⟩
  · exact .inr ⟨_, rfl⟩

/-- `(*DefaultFanController).getPwm()` of the model never panics -/
theorem ctlGetPwm_cases (w : World) : (∃ v, ctlGetPwm w = .ok v) ∨ (∃ e, ctlGetPwm w = .err e) := by
  unfold ctlGetPwm
  split
  · exact fanGetPwm_cases _
  · split
    · exact .inl ⟨_, rfl⟩
    · exact .inl ⟨_, rfl⟩

/-- `fan.GetRpm()` of the model never panics -/
theorem fanGetRpm_cases (f : FanSt) (d : Dev) :
    (∃ v, fanGetRpm f d = .ok v) ∨ (∃ e, fanGetRpm f d = .err e) := by
  unfold fanGetRpm
  split
  · split
    · exact .inl ⟨_, rfl⟩
    · exact .inr ⟨_, rfl⟩
  · cases d.rpmRead
    · exact .inl ⟨_, rfl⟩
    · exact .inr ⟨_, rfl⟩
    · exact .inr ⟨_, rfl⟩

/-- the Go result of `getPwm` on a model world, exactly: value 0 next to an error -/
theorem getPwm_exact :
    Generated3.ctl_getPwm indef (modelOps indef curve now) w
      = (.ok ((match ctlGetPwm w with | .ok v => v | _ => 0), t3ErrOf (ctlGetPwm w)), w) := by
  unfold Generated3.ctl_getPwm ctlGetPwm
  simp only [run_bind, run_pure, run_ite, ops_Supports0, ops_GetPwm, ops_get_lastSet, ops_GetMinPwm]
  cases hs : supports w.fan w.dev .pwmSensor
  · cases hl : w.ctl.lastSet <;> simp [run_deref_some, t3ErrOf]
  · rcases fanGetPwm_cases w.dev with ⟨v, hv⟩ | ⟨e, he⟩
    · simp [hv, goRead, t3ErrOf]
    · simp [he, goRead, t3ErrOf]

end T3A

open T3A

variable (indef : Int) (curve : Res Int) (now : Int) (w : World)

/-- (1) `getPwm` -/
theorem trans3_getPwm :
    ∃ g, Generated3.ctl_getPwm indef (modelOps indef curve now) w = (.ok g, w) ∧ Agrees g (ctlGetPwm w) := by
  refine ⟨_, getPwm_exact indef curve now w, ?_⟩
  rcases ctlGetPwm_cases w with ⟨v, hv⟩ | ⟨e, he⟩
  · simp [hv, Agrees, t3ErrOf]
  · simp [he, Agrees, t3ErrOf]

/-- (2) `trySetManualPwm` -/
theorem trans3_trySetManualPwm :
    Generated3.ctl_trySetManualPwm indef (modelOps indef curve now) w
      = (.ok (t3ErrOf (trySetManualPwm w.fan w.dev).2.1), { w with dev := (trySetManualPwm w.fan w.dev).1 }) := by
  unfold Generated3.ctl_trySetManualPwm trySetManualPwm
  simp only [run_bind, run_pure, run_ite, ops_Supports2, ops_SetPwmEnabled]
  cases hs : supports w.fan w.dev .controlMode
  · simp [t3ErrOf]
  · rcases h1 : setPwmEnabled w.fan w.dev 1 with ⟨d1, r1, o1⟩
    cases r1 with
    | ok u =>
      cases u
      simp [t3ErrOf]
    | err e =>
      rcases h2 : setPwmEnabled w.fan d1 0 with ⟨d2, r2, o2⟩
      cases r2 <;> simp [t3ErrOf, h2]
    | panic p =>
      rcases h2 : setPwmEnabled w.fan d1 0 with ⟨d2, r2, o2⟩
      cases r2 <;> simp [t3ErrOf, h2]

/-- (3) `findClosestDistinctTarget` -/
theorem trans3_findClosestDistinctTarget (t : Int) :
    Generated3.ctl_findClosestDistinctTarget indef (modelOps indef curve now) t w = (closestDistinct w.ctl t, w) := by
  unfold Generated3.ctl_findClosestDistinctTarget closestDistinct
  simp only [run_bind, ops_get_distinct, run_liftRes, trans2_util_FindClosest]

/-- (4) `applyPwmMapping` -/
theorem trans3_applyPwmMapping (k : Int) :
    Generated3.ctl_applyPwmMapping indef (modelOps indef curve now) k w = (.ok (applyPwmMapping w.ctl k), w) := by
  unfold Generated3.ctl_applyPwmMapping
  simp only [run_bind, run_pure, ops_get_pwmMap, go_mapGetOpt_eq]

/-- (5) `increaseMinPwmOffset` -/
theorem trans3_increaseMinPwmOffset :
    Generated3.ctl_increaseMinPwmOffset indef (modelOps indef curve now) w
      = (.ok (), { w with ctl := { w.ctl with offset := w.ctl.offset + 1,
                                              increasedCount := w.ctl.increasedCount + 1 } }) := by
  unfold Generated3.ctl_increaseMinPwmOffset
  simp only [run_bind, run_pure, ops_get_offset, ops_set_offset, ops_set_statsOffset, ops_get_incr, ops_set_incr]

/-- (6) `measureRpm` -/
theorem trans3_measureRpm :
    Generated3.ctl_measureRpm indef (modelOps indef curve now) w = (.ok (), measureRpm indef w) := by
  unfold Generated3.ctl_measureRpm
  simp only [run_bind, run_ite, getPwm_exact, ops_GetRpm, ops_GetRpmAvg, ops_get_window, ops_SetRpmAvg,
    ops_UpdateCurve, trans_util_UpdateSimpleMovingAvg, ite_self]
  unfold modelGetRpm measureRpm modelUpdateCurveValue
  rcases ctlGetPwm_cases w with ⟨p, hp⟩ | ⟨e, hp⟩ <;>
  rcases fanGetRpm_cases w.fan w.dev with ⟨v, hv⟩ | ⟨e', hv⟩ <;>
  simp only [hp, hv, goRead] <;>
  cases hk : w.fan.kind <;>
  cases hr : w.dev.hasRpm <;>
  simp [hk, run_pure, FanSt.setRpmAvg, FanSt.getRpmAvg]

/-- (7) `restorePwmEnabled` -/
theorem trans3_restorePwmEnabled :
    Generated3.ctl_restorePwmEnabled indef (modelOps indef curve now) w = (.ok (), (restorePwmEnabled w).1) := by
  unfold Generated3.ctl_restorePwmEnabled restorePwmEnabled
  simp only [run_bind, run_pure, run_ite, ops_SetPwm, ops_get_origPwm, ops_Supports2, ops_get_origMode,
    ops_SetPwmEnabled, ite_self]
  rcases h1 : fanSetPwm w.dev w.ctl.origPwm with ⟨d1, r1⟩
  simp only []
  cases hs : supports w.fan d1 .controlMode
  · simp
  · by_cases hm : w.ctl.origMode = 1
    · simp [hm]
    · rcases h2 : setPwmEnabled w.fan d1 w.ctl.origMode with ⟨d2, r2, o2⟩
      cases r2 <;> simp [hm, h2, t3ErrOf]

end Fan2go

#print axioms Fan2go.trans3_getPwm
#print axioms Fan2go.trans3_trySetManualPwm
#print axioms Fan2go.trans3_findClosestDistinctTarget
#print axioms Fan2go.trans3_applyPwmMapping
#print axioms Fan2go.trans3_increaseMinPwmOffset
#print axioms Fan2go.trans3_measureRpm
#print axioms Fan2go.trans3_restorePwmEnabled
