/-
  Translation tie: `Fan2go/Generated/Trans.lean` is rewritten on every check run by go/transgen, a small
  Go -> Lean translator applied to /repo's CURRENT sources (whole pure functions, or statements located
  syntactically inside a larger function).  Each theorem below states

        generated definition  =  hand-written model definition

  and is checked by the kernel (`rfl` / case split + `rfl`).  A source change that alters one of these functions
  semantically changes the generated term and breaks the corresponding `trans_*` theorem at `lake build`,
  independently of what the random generators of the correspondence streams happen to exercise.
  (A harmless rewrite may break it too; that is accepted: the theorem then has to be re-proved.)

  Core Lean only (no Mathlib); no `sorry`, no extra axioms.
-/
import Fan2go.Generated.Trans
import Fan2go.Model.Util
import Fan2go.Model.ControlLoop
import Fan2go.Model.Controller
import Fan2go.Model.Curves
import Fan2go.Model.Fan
namespace Fan2go
open F64

/-- the literal `1` of `1/float64(n)` is the model's `F64.one` -/
private theorem ofInt_one : F64.ofInt 1 = F64.one := by decide +kernel

/-! ### internal/util/math.go -/

/-- (1) `util.Coerce` -/
theorem trans_util_Coerce (indef : Int) : Generated.util_Coerce indef = coerce := rfl

/-- (2) `util.Ratio` -/
theorem trans_util_Ratio (indef : Int) : Generated.util_Ratio indef = ratio := rfl

/-- (3) `util.UpdateSimpleMovingAvg` -/
theorem trans_util_UpdateSimpleMovingAvg (indef : Int) :
    Generated.util_UpdateSimpleMovingAvg indef = updateSimpleMovingAvg := by
  funext oldAvg n newValue
  simp only [Generated.util_UpdateSimpleMovingAvg, updateSimpleMovingAvg, ofInt_one]

/-- (4) `util.getClosest` -/
theorem trans_util_getClosest (indef : Int) : Generated.util_getClosest indef = getClosest := rfl

/-! ### internal/controller/controller.go, `calculateTargetPwm` -/

/-- (5) the clamp `if target > fans.MaxPwmValue {…} else if target < fans.MinPwmValue {…}` -/
theorem trans_ctl_clamp (indef : Int) : Generated.ctl_clamp indef = clamp255 := rfl

/-- (6) the range mapping `target = minPwm + int((float64(target)/fans.MaxPwmValue)*(float64(maxPwm)-float64(minPwm)))` -/
theorem trans_ctl_rescale (indef : Int) : Generated.ctl_rescale indef = rescale indef := rfl

/-- (10a) the stall test `int(avgRpm) <= 0`; the model (`Model/Controller.lean`, `calculateTargetPwm`) spells it
    `decide (toInt indef w.fan.getRpmAvg ≤ 0)` -/
theorem trans_ctl_stallCond (indef : Int) (avgRpm : F64) :
    Generated.ctl_stallCond indef avgRpm = (toInt indef avgRpm ≤ 0) := rfl

/-- (10b) the give-up test `target >= maxPwm`; the model spells it `if target ≥ maxPwm then … "stalled-at-max"` -/
theorem trans_ctl_stallAtMax (indef : Int) (target maxPwm : Int) :
    Generated.ctl_stallAtMax indef target maxPwm = (target ≥ maxPwm) := rfl

/-- (10c) `f.lastSetPwm != nil && *f.lastSetPwm == target`; the model spells it `w.ctl.lastSet == some target` -/
theorem trans_ctl_lastSetEqualsTarget (indef : Int) (lastSet : Option Int) (target : Int) :
    Generated.ctl_lastSetEqualsTarget indef lastSet target = ((lastSet == some target) = true) := by
  cases lastSet <;> simp [Generated.ctl_lastSetEqualsTarget]

/-! ### internal/control_loop -/

/-- (7) `(*DirectControlLoop).Cycle` (clock bookkeeping skipped, see the generated file) -/
theorem trans_DirectControlLoop_Cycle (indef : Int) :
    Generated.DirectControlLoop_Cycle indef = directCycle indef := by
  funext m target current
  simp only [Generated.DirectControlLoop_Cycle, trans_util_Coerce]
  cases m <;> rfl

/-- (9) `(*PidControlLoop).Cycle`: `l.pidLoop.Loop` is a function parameter of the generated definition; instantiated
    with the model's `pidLoop` (second component) it is the second component of the model's `pidCycle`. -/
theorem trans_PidControlLoop_Cycle (indef : Int) (st : PidSt) (target current now : Int) :
    Generated.PidControlLoop_Cycle indef (fun t m => (pidLoop st t m now).2) target current
      = (pidCycle indef st target current now).2 := by
  simp only [Generated.PidControlLoop_Cycle, trans_util_Coerce]
  rfl

/-! ### internal/curves/linear.go -/

/-- (8) the min/max branch of `(*LinearSpeedCurve).Evaluate` -/
theorem trans_LinearSpeedCurve_minMax (indef : Int) (avg : F64) (mn mx : Int) :
    Generated.LinearSpeedCurve_minMax indef mn mx avg = linMinMax indef avg mn mx := rfl

/-! ### internal/fans/hwmon.go -/

/-- (11) `(*HwMonFan).GetMinPwm` -/
theorem trans_HwMonFan_GetMinPwm (indef : Int) (f : FanSt) (hk : f.kind = .hwmon) :
    Generated.HwMonFan_GetMinPwm indef f.neverStop f.minP = f.getMin := by
  simp only [Generated.HwMonFan_GetMinPwm, FanSt.getMin, hk]
  cases f.neverStop <;> cases f.minP <;> rfl

theorem trans_HwMonFan_GetStartPwm (indef : Int) (f : FanSt) (hk : f.kind = .hwmon) :
    Generated.HwMonFan_GetStartPwm indef f.startP = f.getStart := by
  simp only [Generated.HwMonFan_GetStartPwm, FanSt.getStart, hk]
  cases f.startP <;> rfl

theorem trans_HwMonFan_GetMaxPwm (indef : Int) (f : FanSt) (hk : f.kind = .hwmon) :
    Generated.HwMonFan_GetMaxPwm indef f.maxP = f.getMax := by
  simp only [Generated.HwMonFan_GetMaxPwm, FanSt.getMax, hk]
  cases f.maxP <;> rfl

/-- `(*HwMonFan).SetMinPwm`: the generated definition is the value of `fan.MinPwm` after the call; the model's
    setter changes that field and nothing else. -/
theorem trans_HwMonFan_SetMinPwm (indef : Int) (f : FanSt) (hk : f.kind = .hwmon) (pwm : Int) (force : Bool) :
    f.setMin pwm force = { f with minP := Generated.HwMonFan_SetMinPwm indef f.minP f.cfgMin pwm force } := by
  obtain ⟨kind, ns, cm, cs, cx, mp, sp, xp, ra, ri, cd⟩ := f
  have hk' : kind = .hwmon := hk
  subst hk'
  cases cm <;> cases force <;> rfl

theorem trans_HwMonFan_SetStartPwm (indef : Int) (f : FanSt) (hk : f.kind = .hwmon) (pwm : Int) (force : Bool) :
    f.setStart pwm force = { f with startP := Generated.HwMonFan_SetStartPwm indef f.startP f.cfgStart pwm force } := by
  obtain ⟨kind, ns, cm, cs, cx, mp, sp, xp, ra, ri, cd⟩ := f
  have hk' : kind = .hwmon := hk
  subst hk'
  cases cs <;> cases force <;> rfl

theorem trans_HwMonFan_SetMaxPwm (indef : Int) (f : FanSt) (hk : f.kind = .hwmon) (pwm : Int) (force : Bool) :
    f.setMax pwm force = { f with maxP := Generated.HwMonFan_SetMaxPwm indef f.maxP f.cfgMax pwm force } := by
  obtain ⟨kind, ns, cm, cs, cx, mp, sp, xp, ra, ri, cd⟩ := f
  have hk' : kind = .hwmon := hk
  subst hk'
  cases cx <;> cases force <;> rfl

/-! ### non-vacuity: the generated definitions compute (closed-term evaluation by the kernel) -/
example : Generated.ctl_clamp 0 300 = 255 ∧ Generated.ctl_clamp 0 (-3) = 0 ∧ Generated.ctl_clamp 0 77 = 77 := by decide
example : Generated.util_getClosest 0 10 20 15 = 20 ∧ Generated.util_getClosest 0 10 20 14 = 10 := by decide
example : Generated.HwMonFan_GetMinPwm 0 true (some 40) = 40 ∧ Generated.HwMonFan_GetMinPwm 0 false (some 40) = 0 := by decide

end Fan2go

#print axioms Fan2go.trans_util_Coerce
#print axioms Fan2go.trans_util_Ratio
#print axioms Fan2go.trans_util_UpdateSimpleMovingAvg
#print axioms Fan2go.trans_util_getClosest
#print axioms Fan2go.trans_ctl_clamp
#print axioms Fan2go.trans_ctl_rescale
#print axioms Fan2go.trans_ctl_stallCond
#print axioms Fan2go.trans_ctl_stallAtMax
#print axioms Fan2go.trans_ctl_lastSetEqualsTarget
#print axioms Fan2go.trans_DirectControlLoop_Cycle
#print axioms Fan2go.trans_PidControlLoop_Cycle
#print axioms Fan2go.trans_LinearSpeedCurve_minMax
#print axioms Fan2go.trans_HwMonFan_GetMinPwm
#print axioms Fan2go.trans_HwMonFan_GetStartPwm
#print axioms Fan2go.trans_HwMonFan_GetMaxPwm
#print axioms Fan2go.trans_HwMonFan_SetMinPwm
#print axioms Fan2go.trans_HwMonFan_SetStartPwm
#print axioms Fan2go.trans_HwMonFan_SetMaxPwm
