/-
  C09 — A failing sensor or fan read/write never crashes the daemon.

  "A failed or garbage sensor read, RPM read, PWM read or PWM write at any control cycle – for any
  fan backend, sensor backend and curve type – never terminates fan2go abruptly. fan2go either keeps
  regulating with the last good data, or it stops regulating the affected fan after restoring it to
  its original control mode or full speed."

  How the quantifier is covered. In the models every place where the Go code can panic is an explicit
  `Res.panic site`, and every fault is a VALUE: of the device fields (`Dev.pwmRead`, `pwmWrite`,
  `modeRead`, `modeWrite`, `rpmRead`, `hasMode`, `hasRpm`, registers, `resp`), of the `SensorIo` of a
  poll, of the sensor table a curve sees (`SensorView.value = .err _`, any `avg`). The theorems below
  quantify universally over all of these, over all fan kinds (`FanSt.kind`), all sensor kinds, all
  `indef : Int` (Go's `int(NaN)`), all control loops (`LoopSt.cycle` is never unfolded) and over
  event lists of any length in which `.env d` replaces the WHOLE device state between any two
  cycles/polls. "Every single fault and every pair, at every cycle index" is a special case.

  Objects: `updateFanSpeed`, `measureRpm`, `restorePwmEnabled` (Model/Controller.lean), `stepEv`,
  `runEvs`, `Inv`, `Restored` (Spec/Controller.lean), `updateSensor`, `sensorGetValue`
  (Model/Sensor.lean), `evalCurve`, `evalMembers` (Model/Curves.lean), `validateConfig`,
  `toCurveTable` (Model/Config.lean), `closedLoop` (Proofs/NoCrash.lean), `crashSites`
  (Generated/Facts.lean). Proofs in Proofs/NoCrash.lean; cited: C01 (`C01_inv_step`), C03
  (`C03_restore`, `C03_stalled_then_restore`, `C03_lifecycle_no_crash`, `C03_lifecycle_restores`),
  C08 (`C08_failed_read_unchanged`, `C08_getValue_total`), C11 (`evalCurve_total` behind
  `C11_eval_total`), `fact_crash_sites`.

  RESULT: the property HOLDS for the tree in /repo now (with the fix that makes `calculateTargetPwm`
  return the curve error instead of `ui.Fatal`): no finding. Residuals, stated where they arise:
  the restore guarantee has the hypotheses of C03 (`C09_stop_restores`); crash-freedom of a cycle
  needs the PWM map to be installed (`Inv.map_some`; `C09_cycle_needs_map` shows it is needed –
  that it IS installed before the first cycle is C12/C15); curve evaluation needs every configured
  sensor to be present in the sensor table (`SensorsPresent`; a sensor that cannot be created fails
  start-up, C17). Observation (not a crash): a failing cycle ends the WHOLE daemon in an orderly way,
  all fans restored – not only the affected fan (`C09_process_stops_orderly`).
-/
import Fan2go.Proofs.NoCrash
import Fan2go.Props.C01
import Fan2go.Props.C03
import Fan2go.Props.C08
import Fan2go.Props.C11
import Fan2go.Props.Facts
namespace Fan2go
open F64

/-! ## 1. one control cycle -/

/-- One `UpdateFanSpeed()` never panics on its own: for EVERY device state (all read/write fault
    switches, registers and response arbitrary), every fan kind, every control loop, every `indef`,
    and any curve outcome that is a value or an error (the curve's own crash-freedom is
    `C09_curve_no_crash_validated`). A panic could only come from `FindClosest` on an empty slice –
    excluded by `Inv.map_some` – or be the curve's panic passed through. -/
theorem C09_cycle_no_crash (indef : Int) (w : World) (curve : Res Int) (now : Int)
    (hinv : Inv w) (hc : ∀ s, curve ≠ .panic s) :
    ∀ s, (updateFanSpeed indef w curve now).2.1 ≠ .panic s :=
  ufs_no_panic hinv indef curve now hc

/-- a fan with every switch on "fail": PWM unreadable, PWM writes refused, mode unreadable (permission)
    and unwritable, RPM unreadable -/
def C09_allFaults : Dev :=
  { pwm := 77, mode := 2, rpm := 0, pwmRead := .errOther (-1), pwmWrite := .refused,
    modeRead := .errPerm, modeWrite := .refused, rpmRead := .errOther 0, hasMode := true, hasRpm := true }

def C09_faulty : World := { exWorld with dev := C09_allFaults }

theorem C09_faulty_inv : Inv C09_faulty where
  min_nonneg := by decide
  offset_nonneg := by decide
  floor_le_max := by decide
  max_le := by decide
  map_some := ⟨exMap, rfl, exMap_ok, rfl⟩

/-- non-vacuity: with all faults switched on the cycle returns `ok` (write error only logged) and a
    refused write is observed -/
example : (updateFanSpeed 0 C09_faulty (.ok 100) 0).2.1 = .ok () ∧
    ∃ v, Obs.wrotePwm v false ∈ (updateFanSpeed 0 C09_faulty (.ok 100) 0).2.2 := by
  refine ⟨by decide +kernel, 100, by decide +kernel⟩

/-- the hypothesis `Inv.map_some` is needed: without an installed PWM map (`pwmMap = nil`, no
    supported inputs) the very first `setPwm` indexes an empty slice. -/
theorem C09_cycle_needs_map :
    ∃ w : World, w.ctl.pwmMap = none ∧ w.ctl.distinct = #[] ∧
      (updateFanSpeed 0 w (.ok 100) 0).2.1 = .panic "index-out-of-range" :=
  ⟨{ fan := {}, dev := {}, ctl := {} }, rfl, rfl, by decide +kernel⟩

/-- … and a curve panic IS passed through (so the hypothesis on `curve` is needed too) -/
example : (updateFanSpeed 0 exWorld (.panic "curve") 0).2.1 = .panic "curve" := by decide +kernel

/-! ## 2. the RPM poll -/

/-- `measureRpm` is a total function on worlds – its model has no `Res` at all: a failed PWM or RPM
    read is replaced by 0 (controller.go measureRpm ignores the PWM error and logs the RPM error) –
    it keeps the invariant, and it touches neither the device nor the controller state. -/
theorem C09_poll_total (indef : Int) (w : World) (hinv : Inv w) :
    Inv (measureRpm indef w) ∧ (measureRpm indef w).dev = w.dev ∧ (measureRpm indef w).ctl = w.ctl :=
  ⟨C01_inv_step indef w .poll hinv, rfl, rfl⟩

example : Inv (measureRpm 0 C09_faulty) := (C09_poll_total 0 _ C09_faulty_inv).1

/-! ## 3. keep regulating, or stop and restore -/

/-- Every cycle from an `Inv` world either returns `ok` with the invariant intact (so the next cycle is
    covered again: regulation continues), or returns an ERROR – not a panic – and that failing cycle
    has not touched the device nor the original mode / PWM captured at start-up. -/
theorem C09_dichotomy (indef : Int) (w : World) (curve : Res Int) (now : Int)
    (hinv : Inv w) (hc : ∀ s, curve ≠ .panic s) :
    let out := stepEv indef w (.cycle curve now)
    (out.result = .ok () ∧ Inv out.w) ∨
    (∃ e, out.result = .err e ∧ out.w.dev = w.dev ∧ out.w.ctl.origMode = w.ctl.origMode ∧
      out.w.ctl.origPwm = w.ctl.origPwm) := by
  intro out
  rcases ufs_ok_or_err hinv indef curve now hc with h | ⟨e, h⟩
  · exact .inl ⟨h, C01_inv_step indef w _ hinv⟩
  · exact .inr ⟨e, h, ufs_err_untouched h⟩

/-- In the second case `Run` calls `restorePwmEnabled` (controller.go:223-230) and returns nil to the
    actor group. Under the hypotheses of `C03_restore` on the world BEFORE the failing cycle (the
    last-resort write applies: PWM writes land, the register accepts 255, the mode read-back is not
    blind) the fan ends in its original non-manual mode or at PWM 255. Which faults void these
    hypotheses, and that nothing could be done then, is `C03_restore_tight*`, `_perm_blind`,
    `_read_blind`. -/
theorem C09_stop_restores (indef : Int) (w : World) (curve : Res Int) (now : Int) (e : String)
    (h : (stepEv indef w (.cycle curve now)).result = .err e)
    (hpw : w.dev.pwmWrite = .applied) (h255 : w.dev.resp.apply 255 = 255)
    (hmr : w.dev.modeRead = .ok ∨ ∃ v, w.dev.modeRead = .errOther v ∧ v ≠ w.ctl.origMode) :
    Restored (restorePwmEnabled (stepEv indef w (.cycle curve now)).w).1 := by
  have hu : updateFanSpeed indef w curve now =
      ((stepEv indef w (.cycle curve now)).w, .err e, (stepEv indef w (.cycle curve now)).obs) := by
    rw [← h]; rfl
  exact (C03_stalled_then_restore indef w _ curve now e _ hu hpw h255 hmr).2.2.2.2

/-- A curve error (failed sensor read behind a PID curve, propagated through function curves) is
    such a stop: the cycle returns an error – since the fix no longer `ui.Fatal` – and the world is
    exactly as before. Holds in EVERY world (no invariant needed). -/
theorem C09_curve_err_stops (indef : Int) (w : World) (e : String) (now : Int) :
    ∃ e', stepEv indef w (.cycle (.err e) now) = { w := w, obs := [], result := .err e' } := by
  obtain ⟨e', h⟩ := ufs_curve_err indef w e now
  exact ⟨e', by rw [stepEv_cycle, h]⟩

/-- non-vacuity, "keeps regulating": all faults on, three cycles, a poll and a change of the fault
    pattern in between – every step returns `ok` -/
example : (runEvs 0 C09_faulty [.cycle (.ok 100) 0, .poll, .cycle (.ok 100) 1,
      .env { C09_allFaults with pwmRead := .ok, pwmWrite := .ignored }, .cycle (.ok 20) 2]).map
    (·.2.2.result) = [.ok (), .ok (), .ok (), .ok (), .ok ()] := by decide +kernel

/-- non-vacuity, "stops and is restored" (1): the sensor behind the curve fails, the cycle returns
    that error, the restore puts the fan into its original mode 0 -/
example : (stepEv 0 exWorld (.cycle (.err "sensor") 0)).result = .err "sensor" ∧
    Restored (restorePwmEnabled (stepEv 0 exWorld (.cycle (.err "sensor") 0)).w).1 ∧
    (restorePwmEnabled (stepEv 0 exWorld (.cycle (.err "sensor") 0)).w).1.dev.mode = 0 := by
  have h : (stepEv 0 exWorld (.cycle (.err "sensor") 0)).result = .err "sensor" := by decide +kernel
  exact ⟨h, C09_stop_restores 0 exWorld _ 0 _ h rfl rfl (.inl rfl), by decide +kernel⟩

/-- non-vacuity, "stops and is restored" (2): the never-stop fan stalled at its maximum
    (`C03_stalled`), with the mode write silently ignored on top: error, then PWM 255 -/
example : (stepEv 0 { C03_stalled with dev := { pwm := 255, mode := 1, modeWrite := .ignored } }
      (.cycle (.ok 255) 0)).result = .err "stalled-at-max" ∧
    (restorePwmEnabled (stepEv 0 { C03_stalled with dev := { pwm := 255, mode := 1, modeWrite := .ignored } }
      (.cycle (.ok 255) 0)).w).1.dev.pwm = 255 := by decide +kernel

/-! ## 3b. the process around the stopped controller -/

open Lifecycle in
/-- What "stops regulating" means for the process (backend.go `RunDaemon`, oklog/run, `Run`; model
    Model/Lifecycle.lean, fixed semantics = the code in /repo now): `UpdateFanSpeed` returning an error at
    any moment (`CAct.fail` in phase `ticking`), a sensor monitor returning an error (`otherError`), for any
    number of controllers and any interleaving with signals – the process never panics, and whenever it
    has exited every controller that had begun to regulate has restored its fan (C03 part (ii)). The
    controller whose cycle failed restores its fan and returns nil; since every actor of the group is then
    interrupted, the daemon as a whole shuts down in an orderly way (exit status 0) – it does not merely
    drop the one fan. -/
theorem C09_process_stops_orderly (rpms : List Bool) (sched : List Choice) :
    (lrun .fixed (linit rpms) sched).proc ≠ .panicked ∧
    ∀ code, (lrun .fixed (linit rpms) sched).proc = .exited code →
      ∀ c ∈ (lrun .fixed (linit rpms) sched).ctls, c.regulated = true → c.restored = true :=
  ⟨(C03_lifecycle_no_crash rpms sched).1,
   fun code h c hc => (C03_lifecycle_restores rpms sched code h c hc).2⟩

/-- non-vacuity: two fans; fan 0 regulates, its `UpdateFanSpeed` fails; it restores and returns; the group
    interrupts fan 1 (also regulating), which restores too; exit status 0 -/
example :
    (Lifecycle.lrun .fixed (Lifecycle.linit [false, false])
      [.ctl 0 .advance, .ctl 0 .advance, .ctl 0 .advance, .ctl 0 .advance, .ctl 0 .advance, .ctl 0 .tick,
       .ctl 1 .advance, .ctl 1 .advance, .ctl 1 .advance, .ctl 1 .advance, .ctl 1 .advance, .ctl 1 .tick,
       .ctl 0 .fail, .ctl 0 .advance, .ctl 0 .advance, .interrupt, .sigActor,
       .ctl 1 .seeCancel, .ctl 1 .advance, .ctl 1 .advance, .exit]).proc = .exited 0 ∧
    ((Lifecycle.lrun .fixed (Lifecycle.linit [false, false])
      [.ctl 0 .advance, .ctl 0 .advance, .ctl 0 .advance, .ctl 0 .advance, .ctl 0 .advance, .ctl 0 .tick,
       .ctl 1 .advance, .ctl 1 .advance, .ctl 1 .advance, .ctl 1 .advance, .ctl 1 .advance, .ctl 1 .tick,
       .ctl 0 .fail, .ctl 0 .advance, .ctl 0 .advance, .interrupt, .sigActor,
       .ctl 1 .seeCancel, .ctl 1 .advance, .ctl 1 .advance, .exit]).ctls.map
        (fun c => (c.regulated, c.restored))) = [(true, true), (true, true)] := by decide

/-! ## 4. any number of faults of any kinds at any cycles -/

/-- Along every run from an `Inv` world – events in any order and number, `.env d` replacing the whole
    device state (every fault switch) between any two of them – no step panics, provided the curve
    outcomes fed to the cycles are values or errors. -/
theorem C09_run_no_crash (indef : Int) (w0 : World) (es : List Ev) (hinv : Inv w0)
    (hc : ∀ curve now, Ev.cycle curve now ∈ es → ∀ s, curve ≠ .panic s) :
    ∀ x ∈ runEvs indef w0 es, ∀ s, x.2.2.result ≠ .panic s :=
  run_no_panic indef w0 es hinv hc

/-- … and every step of the run is of one of the two kinds of `C09_dichotomy`: `ok` with the invariant
    intact, or (a cycle, then the last step of the run) an error with the device untouched. -/
theorem C09_run_dichotomy (indef : Int) (w0 : World) (es : List Ev) (hinv : Inv w0)
    (hc : ∀ curve now, Ev.cycle curve now ∈ es → ∀ s, curve ≠ .panic s) :
    ∀ x ∈ runEvs indef w0 es,
      (x.2.2.result = .ok () ∧ Inv x.2.2.w) ∨
      (∃ e, x.2.2.result = .err e ∧ x.2.2.w.dev = x.1.dev ∧ x.2.2.w.ctl.origMode = x.1.ctl.origMode ∧
        x.2.2.w.ctl.origPwm = x.1.ctl.origPwm) := by
  intro x hx
  obtain ⟨hi, hstep⟩ := run_pre_inv indef es w0 hinv x hx
  have hmem := run_ev_mem indef es w0 x hx
  rw [hstep]
  cases he : x.2.1 with
  | env d => exact .inl ⟨rfl, C01_inv_step indef x.1 _ hi⟩
  | poll => exact .inl ⟨rfl, C01_inv_step indef x.1 _ hi⟩
  | cycle curve now =>
    rw [he] at hmem
    exact C09_dichotomy indef x.1 curve now hi (hc curve now hmem)

example : ∀ x ∈ runEvs 0 C09_faulty [.cycle (.ok 100) 0, .poll, .env {}, .cycle (.err "read") 1, .poll],
    ∀ s, x.2.2.result ≠ .panic s :=
  C09_run_no_crash 0 _ _ C09_faulty_inv (by
    intro curve now hm s
    simp only [List.mem_cons, List.not_mem_nil, or_false, reduceCtorEq, Ev.cycle.injEq, false_or] at hm
    rcases hm with ⟨rfl, -⟩ | ⟨rfl, -⟩ <;> (intro h; cases h))

/-! ## 5. sensors and curves -/

/-- a sensor poll never panics: every backend, every outcome of its I/O (read failure, exec failure,
    garbage, NaN/Inf), every window size -/
theorem C09_sensor_poll_no_crash (n : Int) (avg : F64) (k : SensorKind) (io : SensorIo) :
    ∀ s, (updateSensor n avg k io).2 ≠ .panic s :=
  updateSensor_no_panic n avg k io

/-- … and a failed read keeps the last good data (the moving average is unchanged) – C08 -/
theorem C09_sensor_failed_keeps_last (n : Int) (avg : F64) (k : SensorKind) (io : SensorIo) (e : String)
    (h : sensorGetValue k io = .err e) :
    (updateSensor n avg k io).1 = avg ∧ (updateSensor n avg k io).2 = .err e :=
  C08_failed_read_unchanged n avg k io e h

example : (updateSensor 10 (fin 42) .cmd .parseErr).1 = fin 42 ∧
    ∀ s, (updateSensor 10 (fin 42) .cmd .parseErr).2 ≠ .panic s :=
  ⟨(C09_sensor_failed_keeps_last 10 _ .cmd .parseErr _ rfl).1, C09_sensor_poll_no_crash _ _ _ _⟩

/-- A PID curve whose sensor is present and whose `GetValue` fails returns that error – no panic –
    and leaves the table (its `Value`, its PID memory, all other curves) unchanged (pid.go:21-29). -/
theorem C09_curve_error_not_crash (indef : Int) (sensors : SensorTable) (now : Int) (fuel : Nat)
    (tbl : CurveTable) (id : String) (c : Curve) (sensor : String) (setPoint : F64)
    (sv : SensorView) (e : String) (hget : tbl.get? id = some c) (hcfg : c.cfg = .pid sensor setPoint)
    (hs : sensors.get? sensor = some sv) (hv : sv.value = .err e) :
    evalCurve indef sensors now (fuel + 1) tbl id = (tbl, .err e) :=
  evalCurve_pid_err indef sensors now fuel tbl id c sensor setPoint sv e hget hcfg hs hv

/-- A linear curve reads only the moving average (the last good data, `C09_sensor_failed_keeps_last`):
    whatever `GetValue` would return – value, error – its evaluation is the same; and with its sensor
    present and a step map that is not empty-and-non-nil it returns a value. -/
theorem C09_linear_ignores_read_failure (indef : Int) (S S' : SensorTable) (now now' : Int) (fuel : Nat)
    (tbl : CurveTable) (id : String) (c : Curve) (sensor : String) (mn mx : Int)
    (steps : Option (List (Int × F64))) (sv sv' : SensorView) (hget : tbl.get? id = some c)
    (hcfg : c.cfg = .linear sensor mn mx steps) (hs : S.get? sensor = some sv)
    (hs' : S'.get? sensor = some sv') (havg : sv.avg = sv'.avg) :
    evalCurve indef S now (fuel + 1) tbl id = evalCurve indef S' now' (fuel + 1) tbl id ∧
    (steps ≠ some [] → ∃ v, (evalCurve indef S now (fuel + 1) tbl id).2 = .ok v) :=
  ⟨evalCurve_linear_avg_only indef S S' now now' fuel tbl id c sensor mn mx steps sv sv' hget hcfg hs hs' havg,
   evalCurve_linear_no_panic indef S now fuel tbl id c sensor mn mx steps sv hget hcfg hs⟩

/-- Function curves propagate a member's error as an error (functional.go:24-37): the error of the
    first member, the error of a later member after the earlier ones evaluated, and the error of the
    member list as the outcome of the function curve. They never manufacture a panic from one: if the
    member list panics, some member did. -/
theorem C09_fn_propagates_err (indef : Int) (sensors : SensorTable) (now : Int) (fuel : Nat)
    (tbl : CurveTable) :
    (∀ m ms e, (evalCurve indef sensors now fuel tbl m).2 = .err e →
      (evalMembers indef sensors now fuel tbl (m :: ms)).2 = .err e) ∧
    (∀ m ms v e, (evalCurve indef sensors now fuel tbl m).2 = .ok v →
      (evalMembers indef sensors now fuel (evalCurve indef sensors now fuel tbl m).1 ms).2 = .err e →
      (evalMembers indef sensors now fuel tbl (m :: ms)).2 = .err e) ∧
    (∀ id c ty ms e, tbl.get? id = some c → c.cfg = .function ty ms →
      (evalMembers indef sensors now fuel tbl ms).2 = .err e →
      (evalCurve indef sensors now (fuel + 1) tbl id).2 = .err e) ∧
    (∀ ms s, (evalMembers indef sensors now fuel tbl ms).2 = .panic s →
      ∃ m ∈ ms, ∃ tbl', (evalCurve indef sensors now fuel tbl' m).2 = .panic s) :=
  ⟨fun m ms e => evalMembers_head_err indef sensors now fuel tbl m ms e,
   fun m ms v e => evalMembers_tail_err indef sensors now fuel tbl m ms v e,
   fun id c ty ms e hget hcfg => evalCurve_function_err indef sensors now fuel tbl id c ty ms e hget hcfg,
   fun ms s => evalMembers_panic_origin indef sensors now fuel ms tbl s⟩

/-- a function curve ("average") nesting a function curve ("maximum") that nests a linear and a PID curve -/
def C09_tbl : CurveTable :=
  [{ id := "lin", cfg := .linear "a" 40 80 none },
   { id := "pid", cfg := .pid "b" (ofInt 50) },
   { id := "fn", cfg := .function "maximum" ["lin", "pid"] },
   { id := "top", cfg := .function "average" ["lin", "fn"] }]

/-- both sensors' reads fail; the averages hold the last good data -/
def C09_sensors : SensorTable :=
  [("a", { avg := ofInt 60000, value := .err "read" }), ("b", { avg := ofInt 50000, value := .err "exec" })]

/-- non-vacuity: the linear curve still evaluates (60 °C between 40 and 80: 127), the PID curve's
    error travels up through both function curves as that error -/
example : (evalCurve 0 C09_sensors 0 5 C09_tbl "lin").2 = .ok 127 ∧
    (evalCurve 0 C09_sensors 0 5 C09_tbl "pid").2 = .err "exec" ∧
    (evalCurve 0 C09_sensors 0 5 C09_tbl "fn").2 = .err "exec" ∧
    (evalCurve 0 C09_sensors 0 5 C09_tbl "top").2 = .err "exec" := by
  refine ⟨?_, ?_, ?_, ?_⟩
  · rw [evalCurve_linear 0 C09_sensors 0 4 C09_tbl "lin" _ "a" 40 80 none _ rfl rfl rfl]
    decide +kernel
  · rw [C09_curve_error_not_crash 0 C09_sensors 0 4 C09_tbl "pid" _ "b" _ _ "exec" rfl rfl rfl rfl]
  · simp [evalCurve, evalMembers, C09_tbl, C09_sensors, CurveTable.get?, SensorTable.get?, CurveTable.set]
  · simp [evalCurve, evalMembers, C09_tbl, C09_sensors, CurveTable.get?, SensorTable.get?, CurveTable.set]

open Cfg in
/-- Every curve of an ACCEPTED configuration (`validateConfig … = ok`, the validator with the fixes of
    C11), evaluated against ANY sensor table in which every configured sensor is present – moving
    averages arbitrary, `GetValue` outcomes arbitrary values or errors – and in ANY table state that
    evaluation can produce (same ids and curve configurations as the instantiated table; `Value`s and
    PID memories arbitrary): no panic, the recursion stays within the budget `#curves + 1`, and the
    table keeps its shape, so the statement applies again at the next cycle. This extends
    `C11_eval_total` (which asks for finite `ok` values) to failing sensors: the PID branch returns
    the error early, linear curves never call `GetValue`. -/
theorem C09_curve_no_crash_validated (c : Configuration) (permOk : Bool)
    (h : validateConfig c permOk = .ok ())
    (indef : Int) (sensors : SensorTable) (now : Int) (hs : SensorsPresent c sensors)
    (T : CurveTable) (hT : shapeOf T = shapeOf (toCurveTable c)) :
    ∀ cc ∈ c.curves,
      shapeOf (evalCurve indef sensors now (c.curves.length + 1) T cc.id).1 = shapeOf (toCurveTable c) ∧
      ∀ site, (evalCurve indef sensors now (c.curves.length + 1) T cc.id).2 ≠ .panic site :=
  eval_no_panic_of_accepted c permOk h indef sensors now hs T hT

open Cfg in
/-- The side condition "`GetValue` does not itself panic" holds for every sensor backend and every
    outcome of its I/O (`C08_getValue_total`): if each configured sensor's view is produced by
    `sensorGetValue`, no curve evaluation panics. -/
theorem C09_curve_no_crash_backends (c : Configuration) (permOk : Bool)
    (h : validateConfig c permOk = .ok ())
    (indef : Int) (sensors : SensorTable) (now : Int)
    (hs : ∀ s ∈ c.sensors, ∃ sv, sensors.get? s.id = some sv ∧ ∃ k io, sv.value = sensorGetValue k io) :
    ∀ cc ∈ c.curves, ∀ site,
      (evalCurve indef sensors now (c.curves.length + 1) (toCurveTable c) cc.id).2 ≠ .panic site := by
  intro cc hcc
  refine (C09_curve_no_crash_validated c permOk h indef sensors now ?_ _ rfl cc hcc).2
  intro s hsm
  obtain ⟨sv, h1, k, io, h2⟩ := hs s hsm
  refine ⟨sv, h1, fun site => ?_⟩
  rw [h2]
  rcases C08_getValue_total k io with ⟨v, hv⟩ | ⟨e, he⟩
  · rw [hv]; intro h'; cases h'
  · rw [he]; intro h'; cases h'

/-- all three sensors of the shipped configuration fail (hwmon read failures), averages arbitrary -/
def C09_shippedSensors (a b c : F64) : SensorTable :=
  [("cpu_package", { avg := a, value := sensorGetValue .hwmon .readFail }),
   ("mainboard", { avg := b, value := sensorGetValue .file .readFail }),
   ("sata_ssd", { avg := c, value := sensorGetValue .cmd (.parsed nan) })]

/-- non-vacuity of the two theorems above: the shipped fan2go.yaml with every sensor failing and
    NaN averages -/
example : ∀ cc ∈ C11.shipped.curves, ∀ site,
    (evalCurve 0 (C09_shippedSensors nan nan nan) 0 (C11.shipped.curves.length + 1)
      (Cfg.toCurveTable C11.shipped) cc.id).2 ≠ .panic site :=
  C09_curve_no_crash_backends C11.shipped true C11.shipped_accepted 0 _ 0 (by
    intro s hs
    simp only [C11.shipped, List.mem_cons, List.not_mem_nil, or_false] at hs
    rcases hs with rfl | rfl | rfl
    · exact ⟨_, rfl, .hwmon, .readFail, rfl⟩
    · exact ⟨_, rfl, .file, .readFail, rfl⟩
    · exact ⟨_, rfl, .cmd, .parsed nan, rfl⟩)

/-! ## 4 + 5 together: the closed loop -/

open Cfg in
/-- The closed loop of one fan of an accepted configuration, regulated by any of its curves: per tick
    the environment chooses the COMPLETE device state (all fault switches) and the COMPLETE sensor
    table (each configured sensor present; its read succeeding or failing), the RPM monitor polls,
    the curve is evaluated on the evolving curve table, `UpdateFanSpeed` runs; the loop ends at the
    first cycle that does not return `ok`. For any number of ticks: no outcome is a panic – every
    cycle returns `ok`, or the last one returns an error (`C09_dichotomy`, `C09_stop_restores`). -/
theorem C09_closed_loop_no_crash (c : Configuration) (permOk : Bool)
    (h : validateConfig c permOk = .ok ()) (indef : Int) (cc : CurveConfig) (hcc : cc ∈ c.curves)
    (w : World) (hinv : Inv w) (ts : List Tick) (hs : ∀ t ∈ ts, SensorsPresent c t.sensors) :
    ∀ r ∈ closedLoop indef (c.curves.length + 1) cc.id w (toCurveTable c) ts,
      r = .ok () ∨ ∃ e, r = .err e := by
  intro r hr
  have := closedLoop_no_panic c permOk h indef cc hcc ts hs w _ hinv rfl r hr
  cases r with
  | ok u => exact .inl rfl
  | err e => exact .inr ⟨e, rfl⟩
  | panic s => exact absurd rfl (this s)

/-- the sensor table of `C09_shippedSensors` satisfies the hypothesis, whatever the averages -/
theorem C09_shippedSensors_present (a b c : F64) : Cfg.SensorsPresent C11.shipped (C09_shippedSensors a b c) := by
  intro s hs
  simp only [C11.shipped, List.mem_cons, List.not_mem_nil, or_false] at hs
  rcases hs with rfl | rfl | rfl <;> exact ⟨_, rfl, fun site h => by cases h⟩

def C09_healthySensors : SensorTable :=
  [("cpu_package", C11.sv50), ("mainboard", C11.sv50), ("sata_ssd", C11.sv50)]

/-- non-vacuity of the hypotheses: the shipped configuration's `case_avg_curve` (function curve over
    three linear curves) driving `C09_faulty`; first tick healthy, second tick all device faults and all
    sensor reads failing with NaN averages, third tick healthy again -/
example : ∀ r ∈ Cfg.closedLoop 0 (C11.shipped.curves.length + 1) "case_avg_curve" C09_faulty
    (Cfg.toCurveTable C11.shipped)
    [{ dev := {}, sensors := C09_healthySensors, now := 0 },
     { dev := C09_allFaults, sensors := C09_shippedSensors nan nan nan, now := 1 },
     { dev := {}, sensors := C09_healthySensors, now := 2 }], r = .ok () ∨ ∃ e, r = .err e :=
  C09_closed_loop_no_crash C11.shipped true C11.shipped_accepted 0
    { id := "case_avg_curve",
      function := some { type := "average", curves := ["cpu_curve", "mainboard_curve", "ssd_curve"] } }
    (by simp [C11.shipped]) C09_faulty C09_faulty_inv _ (by
      intro t ht
      simp only [List.mem_cons, List.not_mem_nil, or_false] at ht
      rcases ht with rfl | rfl | rfl
      · exact Cfg.SensorsDefined.present (by
          intro s hs
          simp only [C11.shipped, List.mem_cons, List.not_mem_nil, or_false] at hs
          rcases hs with rfl | rfl | rfl <;> exact ⟨_, rfl, rfl, _, rfl, rfl⟩)
      · exact C09_shippedSensors_present _ _ _
      · exact Cfg.SensorsDefined.present (by
          intro s hs
          simp only [C11.shipped, List.mem_cons, List.not_mem_nil, or_false] at hs
          rcases hs with rfl | rfl | rfl <;> exact ⟨_, rfl, rfl, _, rfl, rfl⟩))

/-- … and of the conclusion: a tick with ALL device faults on and ALL sensor reads failing (the
    averages hold the last good 50 °C) is a cycle that returns `ok` – the loop keeps regulating -/
example : Cfg.closedLoop 0 (C11.shipped.curves.length + 1) "mainboard_curve" C09_faulty
    (Cfg.toCurveTable C11.shipped)
    [{ dev := C09_allFaults, sensors := C09_shippedSensors (ofInt 50000) (ofInt 50000) (ofInt 50000), now := 1 }]
    = [.ok ()] := by
  rw [Cfg.closedLoop]
  simp only []
  rw [evalCurve_linear 0 _ 1 _ (Cfg.toCurveTable C11.shipped) "mainboard_curve" _ "mainboard" 40 80 none _
    rfl rfl rfl]
  decide +kernel

/-! ## 6. the syntactic crash sites -/

/-- The regenerated list of `panic(` / `ui.Fatal` / `os.Exit` / `log.Fatal` / `MustCompile` / unchecked
    type-assertion sites in the packages `RunDaemon` can reach equals the accounted list
    (`Fan2go.fact_crash_sites`; the table is regenerated from /repo's current sources on every check run,
    so a new crash site on a daemon path breaks this theorem). Disposition of each site class (why it
    cannot fire on a sensor / fan fault at a control cycle):
    * `RunDaemon` ui.Fatal ×2, FatalWithoutStacktrace, os.Exit ×2 — start-up failures and the final exit, before / after regulation;
    * `configuration.*` — configuration loading, before the daemon starts;
    * `DefaultFanController.Run` ui.Fatal — in the interrupt function, only for a non-nil actor error; the actor always returns nil;
    * `NewFanController` ui.Fatal — start-up (unknown curve id; excluded by validation);
    * `Snapshot*Map` type assertions — on the result of `reprint.This` of the same static type;
    * `FunctionSpeedCurve.Evaluate` ui.Fatal — unknown function type; excluded by validation (C11; `evalFn`'s
      "fatal-unknown-function" site, covered by `C09_curve_no_crash_validated`);
    * `findPlatform` MustCompile — constant pattern; `FatalWithoutStacktrace` os.Exit — its own definition;
    * `CheckFilePermissionsForExecution` `info.Sys().(*syscall.Stat_t)` — Linux always supplies that type
      (the nil `info` case after a non-not-exist stat error is the documented residual of C19);
    * `FindFilesMatching` — used by `fan2go detect` only.
    The former site `calculateTargetPwm` ui.Fatal (curve evaluation error escalated to a panic,
    controller.go:436-440 of the property's anchors) is NOT in the list any more: the error is returned
    (`C09_curve_err_stops`). The run-time panics that are not syntactic sites (index out of range in
    `FindClosest` / `CalculateInterpolatedCurveValue` / `delta`, integer division by zero in `average`,
    nil curve / nil sensor dereference) are the `Res.panic` sites of the models, covered by items 1–5. -/
theorem C09_sites_accounted :
    Generated.crashSites = [
      ("internal/backend.go", "RunDaemon", "ui.Fatal", 0, ""),
      ("internal/backend.go", "RunDaemon", "ui.Fatal", 1, ""),
      ("internal/backend.go", "RunDaemon", "ui.FatalWithoutStacktrace", 2, ""),
      ("internal/backend.go", "RunDaemon", "os.Exit", 3, ""),
      ("internal/backend.go", "RunDaemon", "os.Exit", 4, ""),
      ("internal/configuration/config.go", "DetectAndReadConfigFile", "ui.FatalWithoutStacktrace", 0, ""),
      ("internal/configuration/config.go", "InitConfig", "os.Exit", 0, ""),
      ("internal/configuration/config.go", "LoadConfig", "ui.Fatal", 0, ""),
      ("internal/controller/controller.go", "DefaultFanController.Run", "ui.Fatal", 0, ""),
      ("internal/controller/controller.go", "NewFanController", "ui.Fatal", 0, ""),
      ("internal/curves/curve.go", "SnapshotSpeedCurveMap", "typeassert", 0, "map[string]SpeedCurve"),
      ("internal/curves/functional.go", "FunctionSpeedCurve.Evaluate", "ui.Fatal", 0, ""),
      ("internal/fans/common.go", "SnapshotFanMap", "typeassert", 0, "map[string]Fan"),
      ("internal/hwmon/hwmon.go", "findPlatform", "MustCompile", 0, ""),
      ("internal/sensors/common.go", "SnapshotSensorMap", "typeassert", 0, "map[string]Sensor"),
      ("internal/ui/logging.go", "FatalWithoutStacktrace", "os.Exit", 0, ""),
      ("internal/util/file.go", "CheckFilePermissionsForExecution", "typeassert", 0, "*syscall.Stat_t"),
      ("internal/util/file.go", "FindFilesMatching", "ui.Fatal", 0, ""),
      ("internal/util/file.go", "FindFilesMatching", "panic", 1, ""),
      ("internal/util/file.go", "FindFilesMatching", "panic", 2, "")] :=
  Fan2go.fact_crash_sites

/-- in particular no syntactic crash site is left in the functions of the control cycle, the RPM poll
    and the restore (controller.go), nor anywhere in the sensor monitor, the PID and linear curves, the
    fan and sensor backends, the exec wrapper and the numeric helpers -/
theorem C09_no_site_in_cycle_path :
    Generated.crashSites.all (fun s =>
      !(["DefaultFanController.UpdateFanSpeed", "DefaultFanController.calculateTargetPwm",
         "DefaultFanController.ensureNoThirdPartyIsMessingWithUs", "DefaultFanController.setPwm",
         "DefaultFanController.measureRpm", "DefaultFanController.restorePwmEnabled",
         "trySetManualPwm", "updateSensor"].contains s.2.1) &&
      !(["internal/monitor.go", "internal/curves/pid.go", "internal/curves/linear.go",
         "internal/fans/hwmon.go", "internal/fans/file.go", "internal/fans/cmd.go",
         "internal/sensors/hwmon.go", "internal/sensors/file.go", "internal/sensors/cmd.go",
         "internal/util/exec.go", "internal/util/math.go", "internal/util/map.go",
         "internal/util/slice.go", "internal/util/pid.go", "internal/util/window.go"].contains s.1)) = true := by
  rw [C09_sites_accounted]; decide

end Fan2go

#print axioms Fan2go.C09_cycle_no_crash
#print axioms Fan2go.C09_faulty_inv
#print axioms Fan2go.C09_cycle_needs_map
#print axioms Fan2go.C09_poll_total
#print axioms Fan2go.C09_dichotomy
#print axioms Fan2go.C09_stop_restores
#print axioms Fan2go.C09_curve_err_stops
#print axioms Fan2go.C09_process_stops_orderly
#print axioms Fan2go.C09_run_no_crash
#print axioms Fan2go.C09_run_dichotomy
#print axioms Fan2go.C09_sensor_poll_no_crash
#print axioms Fan2go.C09_sensor_failed_keeps_last
#print axioms Fan2go.C09_curve_error_not_crash
#print axioms Fan2go.C09_linear_ignores_read_failure
#print axioms Fan2go.C09_fn_propagates_err
#print axioms Fan2go.C09_curve_no_crash_validated
#print axioms Fan2go.C09_curve_no_crash_backends
#print axioms Fan2go.C09_closed_loop_no_crash
#print axioms Fan2go.C09_shippedSensors_present
#print axioms Fan2go.C09_sites_accounted
#print axioms Fan2go.C09_no_site_in_cycle_path
