import Fan2go.Props.Trans3Ops
import Fan2go.Props.Trans
import Fan2go.Props.Trans2FindClosest
namespace Fan2go
open F64
namespace B3

variable {σ α β : Type}

theorem run_bind (m : GoM σ α) (f : α → GoM σ β) (s : σ) :
    (m >>= f) s = match m s with
      | (.ok a, s') => f a s'
      | (.err e, s') => (.err e, s')
      | (.panic p, s') => (.panic p, s') := rfl
theorem run_pure (a : α) (s : σ) : (pure a : GoM σ α) s = (.ok a, s) := rfl
theorem run_ite (c : Prop) [Decidable c] (a b : GoM σ α) (s : σ) :
    (if c then a else b) s = if c then a s else b s := by split <;> rfl

variable (indef : Int) (curve : Res Int) (now : Int)

theorem o_sup0 (w : World) : (modelOps indef curve now).fan_Supports 0 w = (.ok (supports w.fan w.dev .pwmSensor), w) := rfl
theorem o_sup1 (w : World) : (modelOps indef curve now).fan_Supports 1 w = (.ok (supports w.fan w.dev .rpmSensor), w) := rfl
theorem o_sup2 (w : World) : (modelOps indef curve now).fan_Supports 2 w = (.ok (supports w.fan w.dev .controlMode), w) := rfl
theorem o_getPwm (w : World) : (modelOps indef curve now).fan_GetPwm w = goRead 0 (fanGetPwm w.dev) w := rfl
theorem o_setPwm (v : Int) (w : World) : (modelOps indef curve now).fan_SetPwm v w =
    (.ok (t3ErrOf (fanSetPwm w.dev v).2), { w with dev := (fanSetPwm w.dev v).1 }) := rfl
theorem o_getMin (w : World) : (modelOps indef curve now).fan_GetMinPwm w = (.ok w.fan.getMin, w) := rfl
theorem o_getMax (w : World) : (modelOps indef curve now).fan_GetMaxPwm w = (.ok w.fan.getMax, w) := rfl
theorem o_getRpmAvg (w : World) : (modelOps indef curve now).fan_GetRpmAvg w = (.ok w.fan.getRpmAvg, w) := rfl
theorem o_setRpmAvg (x : F64) (w : World) : (modelOps indef curve now).fan_SetRpmAvg x w =
    (.ok (), { w with fan := w.fan.setRpmAvg indef x }) := rfl
theorem o_neverStop (w : World) : (modelOps indef curve now).fan_ShouldNeverStop w = (.ok w.fan.neverStop, w) := rfl
theorem o_setEnabled (v : Int) (w : World) : (modelOps indef curve now).fan_SetPwmEnabled v w =
    (.ok (t3ErrOf (setPwmEnabled w.fan w.dev v).2.1), { w with dev := (setPwmEnabled w.fan w.dev v).1 }) := rfl
theorem o_curve (w : World) : (modelOps indef curve now).curve_Evaluate w = goRead 0 curve w := rfl
theorem o_cycle (t c : Int) (w : World) : (modelOps indef curve now).controlLoop_Cycle t c w =
    (.ok (w.ctl.loop.cycle indef t c now).2,
      { w with ctl := { w.ctl with loop := (w.ctl.loop.cycle indef t c now).1 } }) := rfl
theorem o_getLast (w : World) : (modelOps indef curve now).get_lastSetPwm w = (.ok w.ctl.lastSet, w) := rfl
theorem o_setLast (v : Option Int) (w : World) : (modelOps indef curve now).set_lastSetPwm v w =
    (.ok (), { w with ctl := { w.ctl with lastSet := v } }) := rfl
theorem o_getMap (w : World) : (modelOps indef curve now).get_pwmMap w = (.ok w.ctl.pwmMap, w) := rfl
theorem o_getDistinct (w : World) : (modelOps indef curve now).get_pwmValuesWithDistinctTarget w = (.ok w.ctl.distinct, w) := rfl
theorem o_getOffset (w : World) : (modelOps indef curve now).get_minPwmOffset w = (.ok w.ctl.offset, w) := rfl
theorem o_setOffset (v : Int) (w : World) : (modelOps indef curve now).set_minPwmOffset v w =
    (.ok (), { w with ctl := { w.ctl with offset := v } }) := rfl
theorem o_getUnexp (w : World) : (modelOps indef curve now).get_stats_UnexpectedPwmValueCount w = (.ok w.ctl.unexpectedCount, w) := rfl
theorem o_setUnexp (v : Int) (w : World) : (modelOps indef curve now).set_stats_UnexpectedPwmValueCount v w =
    (.ok (), { w with ctl := { w.ctl with unexpectedCount := v } }) := rfl
theorem o_setStatsOffset (v : Int) (w : World) : (modelOps indef curve now).set_stats_MinPwmOffset v w = (.ok (), w) := rfl
theorem o_getIncr (w : World) : (modelOps indef curve now).get_stats_IncreasedMinPwmCount w = (.ok w.ctl.increasedCount, w) := rfl
theorem o_setIncr (v : Int) (w : World) : (modelOps indef curve now).set_stats_IncreasedMinPwmCount v w =
    (.ok (), { w with ctl := { w.ctl with increasedCount := v } }) := rfl

theorem deref_some (a : α) (s : σ) : (Go.deref (some a) : GoM σ α) s = (.ok a, s) := rfl
theorem liftRes_run (r : Res α) (s : σ) : (Go.liftRes r : GoM σ α) s = (r, s) := rfl

theorem getPwm_eq (w : World) :
    Generated3.ctl_getPwm indef (modelOps indef curve now) w = goRead 0 (ctlGetPwm w) w := by
  unfold Generated3.ctl_getPwm ctlGetPwm
  simp only [run_bind, o_sup0]
  cases hs : supports w.fan w.dev .pwmSensor
  · simp only [run_bind, o_getLast, run_ite, Bool.false_eq_true, if_false]
    cases hl : w.ctl.lastSet <;> simp [run_pure, o_getMin, deref_some, goRead]
  · simp [o_getPwm]

syntax "b3simp" ("[" Lean.Parser.Tactic.simpLemma,* "]")? : tactic
macro_rules
  | `(tactic| b3simp) => `(tactic| simp only [run_bind, run_pure, run_ite, o_sup0, o_sup1, o_sup2, o_getPwm, o_setPwm,
      o_getMin, o_getMax, o_getRpmAvg, o_setRpmAvg, o_neverStop, o_setEnabled, o_curve, o_cycle, o_getLast, o_setLast,
      o_getMap, o_getDistinct, o_getOffset, o_setOffset, o_getUnexp, o_setUnexp, o_setStatsOffset, o_getIncr, o_setIncr,
      deref_some, liftRes_run, ↓reduceIte, ne_eq, reduceCtorEq, not_false_eq_true, not_true_eq_false])
  | `(tactic| b3simp [$ts,*]) => `(tactic| simp only [run_bind, run_pure, run_ite, o_sup0, o_sup1, o_sup2, o_getPwm, o_setPwm,
      o_getMin, o_getMax, o_getRpmAvg, o_setRpmAvg, o_neverStop, o_setEnabled, o_curve, o_cycle, o_getLast, o_setLast,
      o_getMap, o_getDistinct, o_getOffset, o_setOffset, o_getUnexp, o_setUnexp, o_setStatsOffset, o_getIncr, o_setIncr,
      deref_some, liftRes_run, ↓reduceIte, ne_eq, reduceCtorEq, not_false_eq_true, not_true_eq_false, $ts,*])

theorem findClosest_eq (t : Int) (w : World) :
    Generated3.ctl_findClosestDistinctTarget indef (modelOps indef curve now) t w = (closestDistinct w.ctl t, w) := by
  unfold Generated3.ctl_findClosestDistinctTarget closestDistinct
  b3simp [trans2_util_FindClosest]

theorem applyMap_eq (k : Int) (w : World) :
    Generated3.ctl_applyPwmMapping indef (modelOps indef curve now) k w = (.ok (applyPwmMapping w.ctl k), w) := by
  unfold Generated3.ctl_applyPwmMapping
  b3simp
  unfold Go.mapGetOpt applyPwmMapping
  cases w.ctl.pwmMap
  · rfl
  · rename_i l
    show (Res.ok (Go.mapGet l k), w) = (Res.ok (mapGet l k), w)
    unfold Go.mapGet mapGet
    cases List.find? (fun p => p.1 == k) l <;> rfl

theorem incr_eq (w : World) :
    Generated3.ctl_increaseMinPwmOffset indef (modelOps indef curve now) w =
      (.ok (), { w with ctl := { w.ctl with offset := w.ctl.offset + 1, increasedCount := w.ctl.increasedCount + 1 } }) := by
  unfold Generated3.ctl_increaseMinPwmOffset
  b3simp

theorem tryManual_eq (w : World) :
    ∃ e, Generated3.ctl_trySetManualPwm indef (modelOps indef curve now) w =
      (.ok e, { w with dev := (trySetManualPwm w.fan w.dev).1 }) := by
  unfold Generated3.ctl_trySetManualPwm trySetManualPwm
  b3simp
  cases hs : supports w.fan w.dev .controlMode
  · exact ⟨none, by simp⟩
  · rcases h1 : setPwmEnabled w.fan w.dev 1 with ⟨d', r, o⟩
    cases r
    · exact ⟨_, by simp [t3ErrOf]; rfl⟩
    · simp [t3ErrOf]
      exact ⟨_, ite_self _⟩
    · simp [t3ErrOf]
      exact ⟨_, ite_self _⟩

end B3
open B3

theorem trans3_ensureNoThirdParty (indef : Int) (curve : Res Int) (now : Int) (w : World) :
    Generated3.ctl_ensureNoThirdPartyIsMessingWithUs indef (modelOps indef curve now) w
      = (match ensureNoThirdParty w with
         | .ok (w', _) => (.ok (), w')
         | .err e => (.err e, w)
         | .panic p => (.panic p, w)) := by
  unfold Generated3.ctl_ensureNoThirdPartyIsMessingWithUs ensureNoThirdParty
  b3simp [findClosest_eq, applyMap_eq]
  cases hs : supports w.fan w.dev .pwmSensor
  · simp
  · cases hl : w.ctl.lastSet with
    | none => simp
    | some l =>
      cases hm : w.ctl.pwmMap with
      | none => simp
      | some m =>
        cases hc : closestDistinct w.ctl l with
        | err e => simp [hl, hc, deref_some]
        | panic p => simp [hl, hc, deref_some]
        | ok k =>
          cases hg : fanGetPwm w.dev with
          | ok cur =>
            simp [hl, hc, hg, deref_some, goRead]
            split <;> simp [hm]
          | err e => simp [hl, hc, hg, deref_some, goRead]
          | panic p =>
            exfalso; unfold fanGetPwm at hg; split at hg <;> cases hg

theorem B3.findClosest_ne_err (t : Int) (a : Array Int) (e : String) : findClosest t a ≠ .err e := by
  unfold findClosest
  repeat' split
  all_goals (intro h; cases h)

theorem B3.ensure_ne_err (w : World) (e : String) : ensureNoThirdParty w ≠ .err e := by
  unfold ensureNoThirdParty
  intro h
  split at h
  · cases h
  · split at h
    · split at h
      · dsimp only at h
        split at h
        · split at h <;> cases h
        · cases h
      · rename_i hc; exact findClosest_ne_err _ _ _ hc
      · cases h
    · cases h

set_option hygiene false in
macro "b3_calc_fin" : tactic => `(tactic| (
  generalize he : ensureNoThirdParty _ = er
  rcases er with ⟨w2, obs⟩ | e | p
  · simp only []
    generalize w.fan.getMin + w.ctl.offset + toInt indef _ = T
    cases h3 : supports w2.fan w2.dev .rpmSensor <;> cases h4 : w2.fan.neverStop <;>
      cases h5 : w2.ctl.lastSet <;> simp [deref_some, Agrees]
    rename_i val
    by_cases c1 : val = T <;> by_cases c2 : toInt indef w2.fan.getRpmAvg ≤ 0 <;>
      by_cases c3 : w.fan.getMax ≤ T <;> simp [c1, c2, c3, h5] <;>
      first | done | exact ⟨_, _, ⟨rfl, rfl⟩, rfl⟩
  · exact absurd he (ensure_ne_err _ _)
  · simp))

set_option hygiene false in
macro "b3_calc_tail" : tactic => `(tactic| (
  generalize LoopSt.cycle indef w.ctl.loop cv _ now = cy
  by_cases h1 : cy.2 > 255
  · simp only [h1, ↓reduceIte]
    b3_calc_fin
  · by_cases h2 : cy.2 < 0
    · simp only [h1, h2, ↓reduceIte]
      b3_calc_fin
    · simp only [h1, h2, ↓reduceIte]
      b3_calc_fin))

theorem B3.calc_aux (indef : Int) (curve : Res Int) (now : Int) (w : World) :
    (Generated3.ctl_calculateTargetPwm indef (modelOps indef curve now) w).2
        = (calculateTargetPwm indef w curve now).1
      ∧ (match (calculateTargetPwm indef w curve now).2.1 with
         | .panic p => (Generated3.ctl_calculateTargetPwm indef (modelOps indef curve now) w).1 = .panic p
         | r => ∃ g, (Generated3.ctl_calculateTargetPwm indef (modelOps indef curve now) w).1 = .ok g ∧ Agrees g r) := by
  unfold Generated3.ctl_calculateTargetPwm calculateTargetPwm
  cases hl : w.ctl.lastSet with
  | some v =>
    cases curve with
    | err e => b3simp [hl, goRead]; simp [Agrees]
    | panic p => b3simp [hl, goRead]; simp
    | ok cv =>
      b3simp [hl, goRead, getPwm_eq, trans3_ensureNoThirdParty, incr_eq, clamp255, rescale]
      b3_calc_tail
  | none =>
    cases hs : supports w.fan w.dev .pwmSensor with
    | false =>
      cases curve with
      | err e => b3simp [hl, hs, goRead]; simp [Agrees]
      | panic p => b3simp [hl, hs, goRead]; simp
      | ok cv =>
        b3simp [hl, hs, goRead, getPwm_eq, trans3_ensureNoThirdParty, incr_eq, clamp255, rescale]
        b3_calc_tail
    | true =>
      have hc : ctlGetPwm w = fanGetPwm w.dev := by simp [ctlGetPwm, hs]
      cases hg : fanGetPwm w.dev with
      | err e => b3simp [hl, hs, hc, hg, goRead, getPwm_eq]; simp [Agrees]
      | panic p => b3simp [hl, hs, hc, hg, goRead, getPwm_eq]; simp
      | ok L =>
        cases curve with
        | err e => b3simp [hl, hs, hc, hg, goRead, getPwm_eq]; simp [Agrees]
        | panic p => b3simp [hl, hs, hc, hg, goRead, getPwm_eq]; simp
        | ok cv =>
          b3simp [hl, hs, hc, hg, goRead, getPwm_eq, trans3_ensureNoThirdParty, incr_eq, clamp255, rescale]
          b3_calc_tail

theorem trans3_calculateTargetPwm (indef : Int) (curve : Res Int) (now : Int) (w : World) :
    ∃ res, Generated3.ctl_calculateTargetPwm indef (modelOps indef curve now) w
        = (res, (calculateTargetPwm indef w curve now).1)
      ∧ (match (calculateTargetPwm indef w curve now).2.1 with
         | .panic p => res = .panic p
         | r => ∃ g, res = .ok g ∧ Agrees g r) :=
  ⟨_, Prod.ext rfl (calc_aux indef curve now w).1, (calc_aux indef curve now w).2⟩

theorem B3.fanSetPwm_cases (d : Dev) (v : Int) :
    (fanSetPwm d v).2 = .ok () ∨ ∃ e, (fanSetPwm d v).2 = .err e := by
  unfold fanSetPwm; split <;> simp

theorem trans3_setPwm (indef : Int) (curve : Res Int) (now : Int) (w : World) (target : Int) :
    Generated3.ctl_setPwm indef (modelOps indef curve now) target w
      = (match (ctlSetPwm w target).2.1 with
         | .panic p => (.panic p, (ctlSetPwm w target).1)
         | r => (.ok (t3ErrOf r), (ctlSetPwm w target).1)) := by
  unfold Generated3.ctl_setPwm ctlSetPwm
  cases hc : closestDistinct w.ctl target with
  | err e => exact absurd hc (findClosest_ne_err _ _ _)
  | panic p => b3simp [findClosest_eq, hc]
  | ok k =>
    b3simp [findClosest_eq, hc, applyMap_eq, getPwm_eq]
    cases hs : supports w.fan w.dev .pwmSensor
    · simp
      rcases fanSetPwm_cases w.dev (applyPwmMapping w.ctl k) with h | ⟨e, h⟩ <;> simp [h, t3ErrOf]
    · cases hg : fanGetPwm w.dev with
      | ok cur =>
        by_cases hq : applyPwmMapping w.ctl k = cur
        · simp [ctlGetPwm, hs, hg, goRead, hq, t3ErrOf]
        · simp [ctlGetPwm, hs, hg, goRead, hq]
          rcases fanSetPwm_cases w.dev (applyPwmMapping w.ctl k) with h | ⟨e, h⟩ <;> simp [h, t3ErrOf]
      | err e =>
        simp [ctlGetPwm, hs, hg, goRead]
        rcases fanSetPwm_cases w.dev (applyPwmMapping w.ctl k) with h | ⟨e, h⟩ <;> simp [h, t3ErrOf]
      | panic p =>
        exfalso; unfold fanGetPwm at hg; split at hg <;> cases hg

theorem B3.agrees_ok {α : Type} (g : α × Option String) (v : α) (h : Agrees g (.ok v)) : g = (v, none) := by
  rcases g with ⟨a, _ | e⟩ <;> simp [Agrees] at h ⊢
  exact h

theorem B3.agrees_err {α : Type} (g : α × Option String) (e : String) (h : Agrees g (.err e : Res α)) :
    g.2 = some e := by
  rcases g with ⟨a, _ | e'⟩ <;> simp [Agrees] at h ⊢
  exact h

theorem trans3_UpdateFanSpeed (indef : Int) (curve : Res Int) (now : Int) (w : World) :
    Generated3.ctl_UpdateFanSpeed indef (modelOps indef curve now) w
      = (match (updateFanSpeed indef w curve now).2.1 with
         | .panic p => (.panic p, (updateFanSpeed indef w curve now).1)
         | r => (.ok (t3ErrOf r), (updateFanSpeed indef w curve now).1)) := by
  obtain ⟨res, hres, hm⟩ := trans3_calculateTargetPwm indef curve now w
  unfold Generated3.ctl_UpdateFanSpeed updateFanSpeed
  simp only [run_bind, hres]
  rcases hcalc : calculateTargetPwm indef w curve now with ⟨w1, r, o⟩
  rw [hcalc] at hm
  cases r with
  | panic p => simp at hm; subst hm; simp
  | err e =>
    obtain ⟨g, rfl, ha⟩ := hm
    have := agrees_err g e ha
    simp [this, run_pure, t3ErrOf]
  | ok t =>
    obtain ⟨g, rfl, ha⟩ := hm
    have := agrees_ok g t ha
    subst this
    obtain ⟨e1, h1⟩ := tryManual_eq indef curve now w1
    simp [h1, trans3_setPwm, run_pure, run_bind]
    generalize ctlSetPwm _ t = cs
    rcases cs with ⟨w3, r3, o3⟩
    cases r3 <;> simp [t3ErrOf]

#print axioms trans3_ensureNoThirdParty
#print axioms trans3_calculateTargetPwm
#print axioms trans3_setPwm
#print axioms trans3_UpdateFanSpeed

end Fan2go
