import Fan2go.Generated.Trans2
import Fan2go.Props.Trans
namespace Fan2go
open Go

namespace FC
theorem idx_nat (a : Array Int) (i : Nat) (h : i < a.size) : idx a (i : Int) = .ok a[i]! := by
  simp [idx, h]
theorem bind_ok {α β} (a : α) (f : α → Res β) : (Res.ok a >>= f) = f a := rfl
theorem bind_panic {α β} (p : String) (f : α → Res β) : (Res.panic p >>= f) = Res.panic p := rfl
theorem pure_eq {α} (a : α) : (pure a : Res α) = .ok a := rfl

theorem div2 (i j : Nat) : Go.div ((i:Int) + j) 2 = .ok (((i + j) / 2 : Nat) : Int) := by
  unfold Go.div
  simp only [show ¬ ((2:Int) = 0) by decide, ↓reduceIte]
  rw [Int.tdiv_eq_ediv_of_nonneg (by omega)]; congr 1

theorem loop_eq (indef target : Int) (arr : Array Int) (fuel i j mid : Nat) (hj : j ≤ arr.size) (hm : mid < arr.size)
    (hf : j - i < fuel) :
    ∃ r i' j' mid', loopFuel (σ := Option Int × Int × Int × Int)
      (fun _ __s =>
        if ¬__s.snd.fst < __s.snd.snd.fst then
          pure (ForInStep.done (none, __s.snd.fst, __s.snd.snd.fst, __s.snd.snd.snd))
        else do
          let __do_lift ← div (__s.snd.fst + __s.snd.snd.fst) 2
          let __do_lift_1 ← idx arr __do_lift
          if __do_lift_1 = target then
              pure (ForInStep.done (none, __s.snd.fst, __s.snd.snd.fst, __do_lift))
            else do
              let __do_lift_2 ← idx arr __do_lift
              if target < __do_lift_2 then do
                  let __do_lift_3 ← (do if __do_lift > 0 then pure (decide (target > (← idx arr (__do_lift - 1)))) else pure false)
                  if __do_lift_3 = true then do
                      let __do_lift_4 ← idx arr (__do_lift - 1)
                      let __do_lift_5 ← idx arr __do_lift
                      pure
                          (ForInStep.done
                            (some (Generated.util_getClosest indef __do_lift_4 __do_lift_5 target),
                              __s.snd.fst, __s.snd.snd.fst, __do_lift))
                    else pure (ForInStep.yield (none, __s.snd.fst, __do_lift, __do_lift))
                else do
                  let __do_lift_3 ← (do if __do_lift < len arr - 1 then pure (decide (target < (← idx arr (__do_lift + 1)))) else pure false)
                  if __do_lift_3 = true then do
                      let __do_lift_4 ← idx arr __do_lift
                      let __do_lift_5 ← idx arr (__do_lift + 1)
                      pure
                          (ForInStep.done
                            (some (Generated.util_getClosest indef __do_lift_4 __do_lift_5 target),
                              __s.snd.fst, __s.snd.snd.fst, __do_lift))
                    else pure (ForInStep.yield (none, __do_lift + 1, __s.snd.snd.fst, __do_lift)))
      fuel (none, i, j, mid) = .ok (r, i', j', (mid' : Nat)) ∧ mid' < arr.size ∧
      findClosestLoop arr target i j mid = (match r with | some v => v | none => arr[mid']!) := by
  induction fuel generalizing i j mid with
  | zero => omega
  | succ n ih =>
    unfold loopFuel findClosestLoop
    by_cases hij : i < j
    · have hij' : ((i:Int) < j) := by omega
      have hmid : (i + j) / 2 < arr.size := by omega
      simp only [hij', not_true_eq_false, ↓reduceIte, div2, idx_nat arr _ hmid, bind_ok, hij,
        trans_util_getClosest]
      by_cases h1 : arr[(i + j) / 2]! = target
      · simp [h1, pure_eq]; exact ⟨_, _, _, (i+j)/2, ⟨rfl, rfl, rfl, by omega⟩, hmid, h1.symm⟩
      · simp only [h1, ↓reduceIte]
        by_cases h2 : target < arr[(i + j) / 2]!
        · simp only [h2, ↓reduceIte]
          by_cases h3 : (i + j) / 2 > 0
          · have h3' : (((i + j) / 2 : Nat) : Int) > 0 := by omega
            have e : (((i + j) / 2 : Nat) : Int) - 1 = (((i + j) / 2 - 1 : Nat) : Int) := by omega
            have hm1 : (i + j) / 2 - 1 < arr.size := by omega
            simp only [h3', ↓reduceIte, e, idx_nat arr _ hm1, bind_ok, pure_eq]
            by_cases h4 : target > arr[(i + j) / 2 - 1]!
            · simp [h4, h3]; exact ⟨_, _, _, (i+j)/2, ⟨rfl, rfl, rfl, by omega⟩, hmid, rfl⟩
            · simp only [h4, decide_false, Bool.false_eq_true, ↓reduceIte, h3, and_false]
              exact ih i ((i+j)/2) ((i+j)/2) (by omega) hmid (by omega)
          · have h3' : ¬ (((i + j) / 2 : Nat) : Int) > 0 := by omega
            simp only [h3', ↓reduceIte, pure_eq, bind_ok, Bool.false_eq_true, h3, false_and]
            exact ih i ((i+j)/2) ((i+j)/2) (by omega) hmid (by omega)
        · simp only [h2, ↓reduceIte]
          by_cases h3 : (i + j) / 2 < arr.size - 1
          · have h3' : (((i + j) / 2 : Nat) : Int) < len arr - 1 := by unfold len; omega
            have e : (((i + j) / 2 : Nat) : Int) + 1 = (((i + j) / 2 + 1 : Nat) : Int) := by omega
            have hm1 : (i + j) / 2 + 1 < arr.size := by omega
            simp only [h3', ↓reduceIte, e, idx_nat arr _ hm1, bind_ok, pure_eq]
            by_cases h4 : target < arr[(i + j) / 2 + 1]!
            · simp [h4, h3]; exact ⟨_, _, _, (i+j)/2, ⟨rfl, rfl, rfl, by omega⟩, hmid, rfl⟩
            · simp only [h4, decide_false, Bool.false_eq_true, ↓reduceIte, h3, and_false]
              exact ih ((i+j)/2+1) j ((i+j)/2) hj hmid (by omega)
          · have h3' : ¬ (((i + j) / 2 : Nat) : Int) < len arr - 1 := by unfold len; omega
            simp only [h3', ↓reduceIte, pure_eq, bind_ok, Bool.false_eq_true, h3, false_and]
            exact ih ((i+j)/2+1) j ((i+j)/2) hj hmid (by omega)
    · have hij' : ¬ ((i:Int) < j) := by omega
      simp [hij', hij, pure_eq]; exact ⟨_, _, _, mid, ⟨rfl, rfl, rfl, rfl⟩, hm, rfl⟩
end FC

theorem trans2_util_FindClosest (indef : Int) (target : Int) (arr : Array Int) :
    Generated2.util_FindClosest indef target arr = findClosest target arr := by
  unfold Generated2.util_FindClosest findClosest
  simp only [forIn, ForIn.forIn]
  by_cases h0 : arr.size = 0
  · have : idx arr 0 = .panic "index-out-of-range" := by simp [idx, h0]
    simp only [this, h0, ↓reduceIte, FC.bind_panic]
  · have hpos : 0 < arr.size := by omega
    have e0 : idx arr 0 = .ok arr[0]! := FC.idx_nat arr 0 hpos
    have eN : idx arr (len arr - 1) = .ok arr[arr.size - 1]! := by
      have : len arr - 1 = ((arr.size - 1 : Nat) : Int) := by unfold len; omega
      rw [this]; exact FC.idx_nat arr _ (by omega)
    simp only [h0, ↓reduceIte, e0, eN, FC.bind_ok]
    by_cases h1 : target ≤ arr[0]!
    · simp only [h1, ↓reduceIte]
    · simp only [h1, ↓reduceIte]
      by_cases h2 : target ≥ arr[arr.size - 1]!
      · simp only [h2, ↓reduceIte]
      · simp only [h2, ↓reduceIte]
        obtain ⟨r, i', j', mid', hl, hm, hr⟩ :=
          FC.loop_eq indef target arr (arr.size + 1) 0 arr.size 0 (Nat.le_refl _) hpos (by omega)
        rw [show ((0:Nat):Int) = 0 from rfl, show ((arr.size : Nat) : Int) = len arr from rfl] at hl
        rw [hl, hr]
        cases r with
        | some v => rfl
        | none => exact FC.idx_nat arr mid' hm
end Fan2go
#print axioms Fan2go.trans2_util_FindClosest
