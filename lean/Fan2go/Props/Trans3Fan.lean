import Fan2go.Props.Trans3FanOps
import Fan2go.Props.Trans
import Fan2go.Props.Trans2Keys
namespace Fan2go
open F64
set_option linter.unusedSimpArgs false
set_option linter.unusedVariables false

namespace T3F

/-! ### running `GoM` terms -/

theorem run_bind {σ α β : Type} (m : GoM σ α) (f : α → GoM σ β) (s : σ) :
    (m >>= f) s = match m s with
      | (.ok a, s') => f a s'
      | (.err e, s') => (.err e, s')
      | (.panic p, s') => (.panic p, s') := rfl

theorem run_pure {σ α : Type} (a : α) (s : σ) : (pure a : GoM σ α) s = (.ok a, s) := rfl

theorem run_ite {σ α : Type} (c : Prop) [Decidable c] (a b : GoM σ α) (s : σ) :
    (if c then a else b) s = if c then a s else b s := by split <;> rfl

theorem run_liftRes {σ α : Type} (r : Res α) (s : σ) : (Go.liftRes r : GoM σ α) s = (r, s) := rfl

theorem run_deref_some {σ α : Type} (a : α) (s : σ) : (Go.deref (some a) : GoM σ α) s = (.ok a, s) := rfl

/-! ### the fields of `hwmonOps` -/

variable (w : World)

theorem h_read (p : String) : hwmonOps.readIntFromFile p w = (.ok (devRead p w.dev), w) := rfl
theorem h_write (v : Int) (p : String) :
    hwmonOps.writeIntToFile v p w = (.ok (devWrite v p w.dev).1, { w with dev := (devWrite v p w.dev).2 }) := rfl
theorem h_stat (p : String) : hwmonOps.stat p w = (.ok ((), devStat p w.dev), w) := rfl
theorem h_pwmPath : hwmonOps.get_Config_HwMon_PwmPath w = (.ok pwmPath, w) := rfl
theorem h_enablePath : hwmonOps.get_Config_HwMon_PwmEnablePath w = (.ok enablePath, w) := rfl
theorem h_rpmPath : hwmonOps.get_Config_HwMon_RpmInputPath w = (.ok rpmPath, w) := rfl
theorem h_neverStop : hwmonOps.get_Config_NeverStop w = (.ok w.fan.neverStop, w) := rfl
theorem h_cfgMin : hwmonOps.get_Config_MinPwm w = (.ok w.fan.cfgMin, w) := rfl
theorem h_cfgStart : hwmonOps.get_Config_StartPwm w = (.ok w.fan.cfgStart, w) := rfl
theorem h_cfgMax : hwmonOps.get_Config_MaxPwm w = (.ok w.fan.cfgMax, w) := rfl
theorem h_getMin : hwmonOps.get_MinPwm w = (.ok w.fan.minP, w) := rfl
theorem h_setMin (v : Option Int) :
    hwmonOps.set_MinPwm v w = (.ok (), { w with fan := { w.fan with minP := v } }) := rfl
theorem h_getStart : hwmonOps.get_StartPwm w = (.ok w.fan.startP, w) := rfl
theorem h_setStart (v : Option Int) :
    hwmonOps.set_StartPwm v w = (.ok (), { w with fan := { w.fan with startP := v } }) := rfl
theorem h_getMax : hwmonOps.get_MaxPwm w = (.ok w.fan.maxP, w) := rfl
theorem h_setMax (v : Option Int) :
    hwmonOps.set_MaxPwm v w = (.ok (), { w with fan := { w.fan with maxP := v } }) := rfl
theorem h_getAvg : hwmonOps.get_RpmMovingAvg w = (.ok w.fan.rpmAvg, w) := rfl
theorem h_setAvg (v : F64) :
    hwmonOps.set_RpmMovingAvg v w = (.ok (), { w with fan := { w.fan with rpmAvg := v } }) := rfl
theorem h_setRpm (v : Int) : hwmonOps.set_Rpm v w = (.ok (), w) := rfl
theorem h_setPwm (v : Int) : hwmonOps.set_Pwm v w = (.ok (), w) := rfl
theorem h_getCurve : hwmonOps.get_FanCurveData w = (.ok w.fan.curveData, w) := rfl
theorem h_setCurve (v : Option (List (Int × F64))) :
    hwmonOps.set_FanCurveData v w = (.ok (), { w with fan := { w.fan with curveData := v } }) := rfl

/-! ### the paths -/

theorem enable_ne_pwm : enablePath ≠ pwmPath := by decide
theorem rpm_ne_pwm : rpmPath ≠ pwmPath := by decide
theorem rpm_ne_enable : rpmPath ≠ enablePath := by decide

theorem devRead_pwm (d : Dev) : devRead pwmPath d = readReg d.pwmRead d.pwm := by
  simp [devRead]
theorem devRead_enable (d : Dev) : devRead enablePath d = readReg d.modeRead d.mode := by
  simp [devRead, enable_ne_pwm]
theorem devRead_rpm (d : Dev) :
    devRead rpmPath d = if d.hasRpm then readReg d.rpmRead d.rpm else (-1, some "read") := by
  simp [devRead, rpm_ne_pwm, rpm_ne_enable]
theorem devWrite_pwm (v : Int) (d : Dev) :
    devWrite v pwmPath d = (t3ErrOf (fanSetPwm d v).2, (fanSetPwm d v).1) := by
  simp [devWrite]
theorem devWrite_enable (v : Int) (d : Dev) :
    devWrite v enablePath d = (match d.modeWrite with
     | .refused => (some "write", d)
     | .applied => (none, { d with mode := v })
     | .ignored => (none, d)) := by
  unfold devWrite
  rw [if_neg enable_ne_pwm, if_pos rfl]
  cases d.modeWrite <;> rfl
theorem devStat_enable (d : Dev) : devStat enablePath d = if d.hasMode then none else some "notexist" := by
  simp [devStat]
theorem devStat_rpm (d : Dev) : devStat rpmPath d = if d.hasRpm then none else some "notexist" := by
  simp [devStat, rpm_ne_enable]

end T3F

open T3F

variable (indef : Int) (curve : Res Int) (now : Int) (w : World)

theorem trans3_HwMonFan_Supports (h : w.fan.kind = .hwmon) (k : Int) :
    Generated3.HwMonFan_Supports indef hwmonOps k w = (modelOps indef curve now).fan_Supports k w := by
  unfold Generated3.HwMonFan_Supports
  simp only [run_bind, run_pure, run_ite, h_stat, h_read, h_pwmPath, h_enablePath, h_rpmPath,
    devRead_pwm, devStat_enable, devStat_rpm]
  have hm : ∀ k, (modelOps indef curve now).fan_Supports k w = (match featureOf k with
      | some ft => (.ok (supports w.fan w.dev ft), w)
      | none => (.ok false, w)) := fun _ => rfl
  rw [hm]
  by_cases h2 : k = 2
  · subst h2
    cases hh : w.dev.hasMode <;> simp [featureOf, supports, h, hh]
  by_cases h0 : k = 0
  · subst h0
    cases hh : w.dev.pwmRead <;> simp [featureOf, supports, h, hh, readReg]
  by_cases h1 : k = 1
  · subst h1
    cases hh : w.dev.hasRpm <;> simp [featureOf, supports, h, hh]
  simp [featureOf, h0, h1, h2]

/-- FALSE as given when `w.dev.pwmRead = .errPerm` (see `diff_HwMonFan_GetPwm`): proved for the other read modes -/
theorem trans3_HwMonFan_GetPwm (h : w.fan.kind = .hwmon) (hp : w.dev.pwmRead ≠ .errPerm) :
    Generated3.HwMonFan_GetPwm indef hwmonOps w = (modelOps indef curve now).fan_GetPwm w := by
  unfold Generated3.HwMonFan_GetPwm
  have hm : (modelOps indef curve now).fan_GetPwm w = goRead 0 (fanGetPwm w.dev) w := rfl
  rw [hm]
  simp only [run_bind, run_pure, run_ite, h_read, h_pwmPath, h_setPwm, devRead_pwm]
  unfold fanGetPwm
  cases hh : w.dev.pwmRead <;> simp [readReg, goRead, hh] at hp ⊢

/-- the difference: a permission error on the pwm file -/
theorem diff_HwMonFan_GetPwm (h : w.fan.kind = .hwmon) (hp : w.dev.pwmRead = .errPerm) :
    Generated3.HwMonFan_GetPwm indef hwmonOps w = (.ok (0, some "perm"), w)
    ∧ (modelOps indef curve now).fan_GetPwm w = (.ok (0, some "read"), w) := by
  unfold Generated3.HwMonFan_GetPwm
  have hm : (modelOps indef curve now).fan_GetPwm w = goRead 0 (fanGetPwm w.dev) w := rfl
  rw [hm]
  simp only [run_bind, run_pure, run_ite, h_read, h_pwmPath, h_setPwm, devRead_pwm]
  unfold fanGetPwm
  simp [readReg, goRead, hp]

theorem trans3_HwMonFan_SetPwm (h : w.fan.kind = .hwmon) (v : Int) :
    Generated3.HwMonFan_SetPwm indef hwmonOps v w = (modelOps indef curve now).fan_SetPwm v w := by
  unfold Generated3.HwMonFan_SetPwm
  have hm : (modelOps indef curve now).fan_SetPwm v w
      = (.ok (t3ErrOf (fanSetPwm w.dev v).2), { w with dev := (fanSetPwm w.dev v).1 }) := rfl
  rw [hm]
  simp only [run_bind, run_pure, h_write, h_pwmPath, devWrite_pwm]

/-- FALSE as given when `w.dev.hasRpm = true ∧ w.dev.rpmRead = .errPerm` (see `diff_HwMonFan_GetRpm`) -/
theorem trans3_HwMonFan_GetRpm (h : w.fan.kind = .hwmon) (hp : w.dev.hasRpm = true → w.dev.rpmRead ≠ .errPerm) :
    Generated3.HwMonFan_GetRpm indef hwmonOps w = (modelOps indef curve now).fan_GetRpm w := by
  unfold Generated3.HwMonFan_GetRpm
  have hm : (modelOps indef curve now).fan_GetRpm w = modelGetRpm w := rfl
  rw [hm]
  simp only [run_bind, run_pure, run_ite, h_read, h_rpmPath, h_setRpm, devRead_rpm]
  unfold modelGetRpm fanGetRpm
  cases hr : w.dev.hasRpm
  · simp [h, goRead]
  · cases hh : w.dev.rpmRead <;> simp [readReg, goRead, hh, hr, h] at hp ⊢

theorem diff_HwMonFan_GetRpm (h : w.fan.kind = .hwmon) (hr : w.dev.hasRpm = true) (hp : w.dev.rpmRead = .errPerm) :
    Generated3.HwMonFan_GetRpm indef hwmonOps w = (.ok (0, some "perm"), w)
    ∧ (modelOps indef curve now).fan_GetRpm w = (.ok (0, some "read"), w) := by
  unfold Generated3.HwMonFan_GetRpm
  have hm : (modelOps indef curve now).fan_GetRpm w = modelGetRpm w := rfl
  rw [hm]
  simp only [run_bind, run_pure, run_ite, h_read, h_rpmPath, h_setRpm, devRead_rpm]
  unfold modelGetRpm fanGetRpm
  simp [readReg, goRead, hp, hr, h]

theorem trans3_HwMonFan_ShouldNeverStop (h : w.fan.kind = .hwmon) :
    Generated3.HwMonFan_ShouldNeverStop indef hwmonOps w = (modelOps indef curve now).fan_ShouldNeverStop w := by
  unfold Generated3.HwMonFan_ShouldNeverStop
  simp only [run_bind, run_pure, h_neverStop]
  rfl

theorem trans3_HwMonFan_GetMinPwm (h : w.fan.kind = .hwmon) :
    Generated3.HwMonFan_GetMinPwm indef hwmonOps w = (modelOps indef curve now).fan_GetMinPwm w := by
  unfold Generated3.HwMonFan_GetMinPwm Generated3.HwMonFan_ShouldNeverStop
  have hm : (modelOps indef curve now).fan_GetMinPwm w = (.ok w.fan.getMin, w) := rfl
  rw [hm]
  simp only [run_bind, run_pure, run_ite, h_neverStop, h_getMin]
  unfold FanSt.getMin
  cases hn : w.fan.neverStop <;> cases hp : w.fan.minP <;> simp [h, run_deref_some, run_pure]

theorem trans3_HwMonFan_GetMaxPwm (h : w.fan.kind = .hwmon) :
    Generated3.HwMonFan_GetMaxPwm indef hwmonOps w = (modelOps indef curve now).fan_GetMaxPwm w := by
  unfold Generated3.HwMonFan_GetMaxPwm
  have hm : (modelOps indef curve now).fan_GetMaxPwm w = (.ok w.fan.getMax, w) := rfl
  rw [hm]
  simp only [run_bind, run_pure, run_ite, h_getMax]
  unfold FanSt.getMax
  cases hp : w.fan.maxP <;> simp [h, run_deref_some, run_pure]

theorem trans3_HwMonFan_GetStartPwm (h : w.fan.kind = .hwmon) :
    Generated3.HwMonFan_GetStartPwm indef hwmonOps w = (.ok w.fan.getStart, w) := by
  unfold Generated3.HwMonFan_GetStartPwm
  simp only [run_bind, run_pure, run_ite, h_getStart]
  unfold FanSt.getStart
  cases hp : w.fan.startP <;> simp [h, run_deref_some, run_pure]

theorem trans3_HwMonFan_GetRpmAvg (h : w.fan.kind = .hwmon) :
    Generated3.HwMonFan_GetRpmAvg indef hwmonOps w = (modelOps indef curve now).fan_GetRpmAvg w := by
  unfold Generated3.HwMonFan_GetRpmAvg
  have hm : (modelOps indef curve now).fan_GetRpmAvg w = (.ok w.fan.getRpmAvg, w) := rfl
  rw [hm]
  simp only [run_bind, run_pure, h_getAvg]
  simp [FanSt.getRpmAvg, h]

theorem trans3_HwMonFan_SetRpmAvg (h : w.fan.kind = .hwmon) (x : F64) :
    Generated3.HwMonFan_SetRpmAvg indef hwmonOps x w = (modelOps indef curve now).fan_SetRpmAvg x w := by
  unfold Generated3.HwMonFan_SetRpmAvg
  have hm : (modelOps indef curve now).fan_SetRpmAvg x w
      = (.ok (), { w with fan := w.fan.setRpmAvg indef x }) := rfl
  rw [hm]
  simp only [run_bind, run_pure, h_setAvg]
  simp [FanSt.setRpmAvg, h]

theorem trans3_HwMonFan_SetPwmEnabled (h : w.fan.kind = .hwmon) (v : Int) :
    Generated3.HwMonFan_SetPwmEnabled indef hwmonOps v w = (modelOps indef curve now).fan_SetPwmEnabled v w := by
  unfold Generated3.HwMonFan_SetPwmEnabled Generated3.HwMonFan_GetPwmEnabled
  have hm : (modelOps indef curve now).fan_SetPwmEnabled v w
      = (.ok (t3ErrOf (setPwmEnabled w.fan w.dev v).2.1), { w with dev := (setPwmEnabled w.fan w.dev v).1 }) := rfl
  rw [hm]
  simp only [run_bind, run_pure, run_ite, h_write, h_read, h_enablePath, devWrite_enable, devRead_enable]
  unfold setPwmEnabled fanGetPwmEnabled
  cases hw : w.dev.modeWrite <;> cases hr : w.dev.modeRead <;>
    simp [h, hw, hr, readReg, t3ErrOf, run_pure]
  all_goals (split <;> rename_i hx <;> (try simp only [Decidable.not_not] at hx) <;> simp [hx])

theorem trans3_HwMonFan_UpdateFanRpmCurveValue (h : w.fan.kind = .hwmon) (pwm : Int) (rpm : F64) :
    Generated3.HwMonFan_UpdateFanRpmCurveValue indef hwmonOps pwm rpm w
      = (modelOps indef curve now).fan_UpdateFanRpmCurveValue pwm rpm w := by
  unfold Generated3.HwMonFan_UpdateFanRpmCurveValue
  have hm : (modelOps indef curve now).fan_UpdateFanRpmCurveValue pwm rpm w = modelUpdateCurveValue pwm rpm w := rfl
  rw [hm]
  simp only [run_bind, run_pure, run_ite, h_getCurve, h_setCurve]
  unfold modelUpdateCurveValue Go.mapSet
  cases hc : w.fan.curveData <;> simp [h, hc, run_deref_some, run_pure, h_getCurve, h_setCurve]

theorem trans3_HwMonFan_SetMinPwm (h : w.fan.kind = .hwmon) (pwm : Int) (force : Bool) :
    Generated3.HwMonFan_SetMinPwm indef hwmonOps pwm force w = (.ok (), { w with fan := w.fan.setMin pwm force }) := by
  unfold Generated3.HwMonFan_SetMinPwm FanSt.setMin
  simp only [run_bind, run_pure, run_ite, h_cfgMin, h_setMin]
  cases hc : w.fan.cfgMin <;> cases force <;> simp [h, hc, run_pure, h_setMin]

theorem trans3_HwMonFan_SetStartPwm (h : w.fan.kind = .hwmon) (pwm : Int) (force : Bool) :
    Generated3.HwMonFan_SetStartPwm indef hwmonOps pwm force w = (.ok (), { w with fan := w.fan.setStart pwm force }) := by
  unfold Generated3.HwMonFan_SetStartPwm FanSt.setStart
  simp only [run_bind, run_pure, run_ite, h_cfgStart, h_setStart]
  cases hc : w.fan.cfgStart <;> cases force <;> simp [h, hc, run_pure, h_setStart]

theorem trans3_HwMonFan_SetMaxPwm (h : w.fan.kind = .hwmon) (pwm : Int) (force : Bool) :
    Generated3.HwMonFan_SetMaxPwm indef hwmonOps pwm force w = (.ok (), { w with fan := w.fan.setMax pwm force }) := by
  unfold Generated3.HwMonFan_SetMaxPwm FanSt.setMax
  simp only [run_bind, run_pure, run_ite, h_cfgMax, h_setMax]
  cases hc : w.fan.cfgMax <;> cases force <;> simp [h, hc, run_pure, h_setMax]

theorem trans3_HwMonFan_GetPwmEnabled (h : w.fan.kind = .hwmon) :
    ∃ g, Generated3.HwMonFan_GetPwmEnabled indef hwmonOps w = (.ok g, w)
      ∧ g.1 = (fanGetPwmEnabled w.fan w.dev).1 ∧ (g.2 = none ↔ (fanGetPwmEnabled w.fan w.dev).2 = true) := by
  refine ⟨readReg w.dev.modeRead w.dev.mode, ?_, ?_⟩
  · unfold Generated3.HwMonFan_GetPwmEnabled
    simp only [run_bind, run_pure, h_read, h_enablePath, devRead_enable]
  · unfold fanGetPwmEnabled
    cases hr : w.dev.modeRead <;> simp [h, readReg]

theorem kind_setStart (f : FanSt) (p : Int) (b : Bool) : (f.setStart p b).kind = f.kind := by
  unfold FanSt.setStart; split <;> (try split) <;> rfl
theorem kind_setMax (f : FanSt) (p : Int) (b : Bool) : (f.setMax p b).kind = f.kind := by
  unfold FanSt.setMax; split <;> (try split) <;> rfl
theorem kind_setMin (f : FanSt) (p : Int) (b : Bool) : (f.setMin p b).kind = f.kind := by
  unfold FanSt.setMin; split <;> (try split) <;> rfl

theorem run_GetFanRpmCurveData :
    Generated3.HwMonFan_GetFanRpmCurveData indef hwmonOps w = (.ok w.fan.curveData, w) := by
  unfold Generated3.HwMonFan_GetFanRpmCurveData
  simp only [run_bind, run_pure, h_getCurve]

theorem trans3_HwMonFan_AttachFanRpmCurveData (h : w.fan.kind = .hwmon) (data : Option (List (Int × F64)))
    (hs : ∀ d, data = some d → SortedMap d) :
    Generated3.HwMonFan_AttachFanRpmCurveData indef hwmonOps data w
      = (.ok (t3ErrOf (w.fan.attach indef data).2), { w with fan := (w.fan.attach indef data).1 }) := by
  unfold Generated3.HwMonFan_AttachFanRpmCurveData
  cases data with
  | none => simp [run_bind, run_pure, run_ite, FanSt.attach, h, t3ErrOf]
  | some d =>
    cases d with
    | nil => simp [run_bind, run_pure, run_ite, run_deref_some, FanSt.attach, h, t3ErrOf, Go.lenM]
    | cons p rest =>
      have hsorted := hs _ rfl
      have hlen : ¬ ((Go.lenM (p :: rest)) ≤ 0) := by
        simp only [Go.lenM, List.length_cons]; omega
      simp only [run_bind, run_pure, run_ite, run_deref_some, reduceCtorEq, if_false, hlen, decide_false,
        Bool.false_eq_true, h_setCurve]
      rw [run_GetFanRpmCurveData]
      simp only [run_deref_some]
      simp only [trans3_HwMonFan_GetStartPwm, trans3_HwMonFan_SetStartPwm, trans3_HwMonFan_SetMaxPwm,
        trans3_HwMonFan_SetMinPwm, kind_setStart, kind_setMax, h, run_liftRes,
        trans2_fans_ComputePwmBoundaries indef _ _ hsorted]
      simp only [FanSt.attach, h, t3ErrOf]

/-! ### the two genuine differences, as disequalities, and on a concrete world -/

theorem trans3_HwMonFan_GetPwm_differs (h : w.fan.kind = .hwmon) (hp : w.dev.pwmRead = .errPerm) :
    Generated3.HwMonFan_GetPwm indef hwmonOps w ≠ (modelOps indef curve now).fan_GetPwm w := by
  rw [(diff_HwMonFan_GetPwm indef curve now w h hp).1, (diff_HwMonFan_GetPwm indef curve now w h hp).2]
  simp

theorem trans3_HwMonFan_GetRpm_differs (h : w.fan.kind = .hwmon) (hr : w.dev.hasRpm = true)
    (hp : w.dev.rpmRead = .errPerm) :
    Generated3.HwMonFan_GetRpm indef hwmonOps w ≠ (modelOps indef curve now).fan_GetRpm w := by
  rw [(diff_HwMonFan_GetRpm indef curve now w h hr hp).1, (diff_HwMonFan_GetRpm indef curve now w h hr hp).2]
  simp

def wPwmPerm : World := { (default : World) with fan := {}, dev := { pwmRead := .errPerm } }
def wRpmPerm : World := { (default : World) with fan := {}, dev := { rpmRead := .errPerm } }

end Fan2go

#print axioms Fan2go.trans3_HwMonFan_Supports
#print axioms Fan2go.trans3_HwMonFan_GetPwm
#print axioms Fan2go.trans3_HwMonFan_SetPwm
#print axioms Fan2go.trans3_HwMonFan_GetRpm
#print axioms Fan2go.trans3_HwMonFan_GetMinPwm
#print axioms Fan2go.trans3_HwMonFan_GetMaxPwm
#print axioms Fan2go.trans3_HwMonFan_GetStartPwm
#print axioms Fan2go.trans3_HwMonFan_GetRpmAvg
#print axioms Fan2go.trans3_HwMonFan_SetRpmAvg
#print axioms Fan2go.trans3_HwMonFan_ShouldNeverStop
#print axioms Fan2go.trans3_HwMonFan_SetPwmEnabled
#print axioms Fan2go.trans3_HwMonFan_UpdateFanRpmCurveValue
#print axioms Fan2go.trans3_HwMonFan_SetMinPwm
#print axioms Fan2go.trans3_HwMonFan_SetStartPwm
#print axioms Fan2go.trans3_HwMonFan_SetMaxPwm
#print axioms Fan2go.trans3_HwMonFan_GetPwmEnabled
#print axioms Fan2go.trans3_HwMonFan_AttachFanRpmCurveData
#print axioms Fan2go.trans3_HwMonFan_GetPwm_differs
#print axioms Fan2go.trans3_HwMonFan_GetRpm_differs
