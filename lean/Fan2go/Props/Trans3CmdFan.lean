import Fan2go.Props.Trans3CmdFanOps
import Fan2go.Props.Trans3FileFan
namespace Fan2go
open F64
set_option linter.unusedSimpArgs false
set_option linter.unusedVariables false

open T3G

namespace T3C

variable (xp xr : F64) (v : Int) (w : World)

theorem c_exec (exe : String) (args : Array String) (t : Int) :
    (cmdFanOps xp xr v).safeCmdExecution exe args t w = cmdExec v exe args w := rfl
theorem c_parse (s : String) (b : Int) :
    (cmdFanOps xp xr v).parseFloat s b w =
      (.ok (if s = "pwm-output" then (xp, none) else if s = "rpm-output" then (xr, none)
          else (F64.ofInt 0, some "parse")), w) := rfl
theorem c_replace (s old new : String) :
    (cmdFanOps xp xr v).replaceAll s old new w = (.ok (if s = old then new else s), w) := rfl
theorem c_itoa (x : Int) : (cmdFanOps xp xr v).itoa x w = (.ok (if x = v then "#val" else "#other"), w) := rfl
theorem c_cfgRpm : (cmdFanOps xp xr v).get_Config_Cmd_GetRpm w = (.ok (if w.dev.hasRpm then some () else none), w) := rfl
theorem c_cfgPwm : (cmdFanOps xp xr v).get_Config_Cmd_GetPwm w = (.ok (some ()), w) := rfl
theorem c_rpmExec : (cmdFanOps xp xr v).get_rpmConf_Exec w = (.ok "getrpm", w) := rfl
theorem c_rpmArgs : (cmdFanOps xp xr v).get_rpmConf_Args w = (.ok #[], w) := rfl
theorem c_pwmExec : (cmdFanOps xp xr v).get_pwmConf_Exec w = (.ok "getpwm", w) := rfl
theorem c_pwmArgs : (cmdFanOps xp xr v).get_pwmConf_Args w = (.ok #[], w) := rfl
theorem c_setExec : (cmdFanOps xp xr v).get_setConf_Exec w = (.ok "setpwm", w) := rfl
theorem c_setArgs : (cmdFanOps xp xr v).get_setConf_Args w = (.ok #["%pwm%"], w) := rfl
theorem c_neverStop : (cmdFanOps xp xr v).get_Config_NeverStop w = (.ok w.fan.neverStop, w) := rfl
theorem c_getPwm : (cmdFanOps xp xr v).get_Pwm w = (.ok w.dev.pwm, w) := rfl
theorem c_setPwm (x : Int) : (cmdFanOps xp xr v).set_Pwm x w = (.ok (), w) := rfl
theorem c_getRpm : (cmdFanOps xp xr v).get_Rpm w = (.ok w.fan.rpmInt, w) := rfl
theorem c_setRpm (x : Int) :
    (cmdFanOps xp xr v).set_Rpm x w = (.ok (), { w with fan := { w.fan with rpmInt := x } }) := rfl

theorem exec_getpwm (args : Array String) :
    cmdExec v "getpwm" args w = (.ok (cmdReadTok w.dev.pwmRead "pwm-output"), w) := by
  simp [cmdExec]
theorem exec_getrpm (args : Array String) :
    cmdExec v "getrpm" args w = (.ok (cmdReadTok w.dev.rpmRead "rpm-output"), w) := by
  simp [cmdExec]
theorem exec_setpwm :
    cmdExec v "setpwm" #["#val"] w = (.ok ("", t3ErrOf (fanSetPwm w.dev v).2), { w with dev := (fanSetPwm w.dev v).1 }) := by
  simp [cmdExec]

/-- a `for x in #[a] do` loop runs its body once -/
theorem forIn_single {σ α β : Type} (a : α) (b : β) (f : α → β → GoM σ (ForInStep β)) (s : σ) :
    forIn #[a] b f s = match f a b s with
      | (.ok (.done b'), s') => (.ok b', s')
      | (.ok (.yield b'), s') => (.ok b', s')
      | (.err e, s') => (.err e, s')
      | (.panic p, s') => (.panic p, s') := by
  show forIn [a].toArray b f s = _
  rw [List.forIn_toArray, List.forIn_cons, run_bind]
  rcases f a b s with ⟨r, s'⟩
  cases r with
  | ok x => cases x <;> rfl
  | err e => rfl
  | panic p => rfl

end T3C

open T3C

variable (indef : Int) (curve : Res Int) (now : Int) (w : World) (xp xr : F64) (v0 : Int)

theorem trans3_CmdFan_Supports (h : w.fan.kind = .cmd) (k : Int) :
    Generated3.CmdFan_Supports indef (cmdFanOps xp xr v0) k w = (modelOps indef curve now).fan_Supports k w := by
  unfold Generated3.CmdFan_Supports
  have hm : ∀ k, (modelOps indef curve now).fan_Supports k w = (match featureOf k with
      | some ft => (.ok (supports w.fan w.dev ft), w)
      | none => (.ok false, w)) := fun _ => rfl
  rw [hm]
  by_cases h2 : k = 2
  · subst h2
    simp [run_bind, run_pure, run_ite, featureOf, supports, h]
  by_cases h0 : k = 0
  · subst h0
    simp [run_bind, run_pure, run_ite, c_cfgPwm, featureOf, supports, h]
  by_cases h1 : k = 1
  · subst h1
    simp only [run_bind, run_pure, run_ite, c_cfgRpm]
    cases hh : w.dev.hasRpm <;> simp [featureOf, supports, h, hh, run_pure, run_bind]
  simp [featureOf, h0, h1, h2, run_bind, run_pure, run_ite]

/-- the device prints `xp`; the model's register holds what Go's `int(xp)` makes of it -/
theorem trans3_CmdFan_GetPwm (h : w.fan.kind = .cmd) (hp : w.dev.pwm = F64.toInt indef xp) :
    Generated3.CmdFan_GetPwm indef (cmdFanOps xp xr v0) w = (modelOps indef curve now).fan_GetPwm w := by
  unfold Generated3.CmdFan_GetPwm
  have hm : (modelOps indef curve now).fan_GetPwm w = goRead 0 (fanGetPwm w.dev) w := rfl
  rw [hm]
  simp only [run_bind, run_pure, run_ite, c_exec, c_pwmExec, c_pwmArgs, exec_getpwm]
  unfold fanGetPwm
  cases hh : w.dev.pwmRead <;>
    simp [cmdReadTok, goRead, hh, hp, run_bind, run_pure, run_ite, c_parse, c_setPwm]

theorem trans3_CmdFan_SetPwm (h : w.fan.kind = .cmd) (v : Int) :
    Generated3.CmdFan_SetPwm indef (cmdFanOps xp xr v) v w = (modelOps indef curve now).fan_SetPwm v w := by
  unfold Generated3.CmdFan_SetPwm
  have hm : (modelOps indef curve now).fan_SetPwm v w
      = (.ok (t3ErrOf (fanSetPwm w.dev v).2), { w with dev := (fanSetPwm w.dev v).1 }) := rfl
  rw [hm]
  simp only [run_bind, run_pure, run_ite, c_setArgs, forIn_single, c_itoa, c_replace, c_setExec, c_exec]
  simp only [if_true, List.push_toArray, List.nil_append, exec_setpwm]
  cases hx : t3ErrOf (fanSetPwm w.dev v).2 <;> simp [hx, Go.deref]

theorem trans3_CmdFan_GetRpm (h : w.fan.kind = .cmd) (hr : w.dev.rpm = F64.toInt indef xr) :
    Generated3.CmdFan_GetRpm indef (cmdFanOps xp xr v0) w = (modelOps indef curve now).fan_GetRpm w := by
  unfold Generated3.CmdFan_GetRpm
  have hm : (modelOps indef curve now).fan_GetRpm w = modelGetRpm w := rfl
  rw [hm]
  have hs : Generated3.CmdFan_Supports indef (cmdFanOps xp xr v0) 1 w = (.ok w.dev.hasRpm, w) := by
    rw [trans3_CmdFan_Supports indef curve now w xp xr v0 h 1]
    simp [modelOps, featureOf, supports]
  simp only [run_bind, run_pure, run_ite, hs]
  unfold modelGetRpm fanGetRpm
  cases hr' : w.dev.hasRpm
  · simp [h, goRead, run_bind, run_pure, run_ite]
  · simp only [run_bind, run_pure, run_ite, c_exec, c_rpmExec, c_rpmArgs, exec_getrpm]
    cases hh : w.dev.rpmRead <;>
      simp [cmdReadTok, goRead, hh, hr, hr', h, run_bind, run_pure, run_ite, c_parse, c_setRpm]

theorem trans3_CmdFan_GetMinPwm (h : w.fan.kind = .cmd) :
    Generated3.CmdFan_GetMinPwm indef (cmdFanOps xp xr v0) w = (modelOps indef curve now).fan_GetMinPwm w := by
  unfold Generated3.CmdFan_GetMinPwm
  have hm : (modelOps indef curve now).fan_GetMinPwm w = (.ok w.fan.getMin, w) := rfl
  rw [hm]
  simp [run_pure, FanSt.getMin, h]

theorem trans3_CmdFan_GetMaxPwm (h : w.fan.kind = .cmd) :
    Generated3.CmdFan_GetMaxPwm indef (cmdFanOps xp xr v0) w = (modelOps indef curve now).fan_GetMaxPwm w := by
  unfold Generated3.CmdFan_GetMaxPwm
  have hm : (modelOps indef curve now).fan_GetMaxPwm w = (.ok w.fan.getMax, w) := rfl
  rw [hm]
  simp [run_pure, FanSt.getMax, h]

theorem trans3_CmdFan_GetStartPwm (h : w.fan.kind = .cmd) :
    Generated3.CmdFan_GetStartPwm indef (cmdFanOps xp xr v0) w = (.ok w.fan.getStart, w) := by
  unfold Generated3.CmdFan_GetStartPwm
  simp [run_pure, FanSt.getStart, h]

theorem trans3_CmdFan_GetRpmAvg (h : w.fan.kind = .cmd) :
    Generated3.CmdFan_GetRpmAvg indef (cmdFanOps xp xr v0) w = (modelOps indef curve now).fan_GetRpmAvg w := by
  unfold Generated3.CmdFan_GetRpmAvg
  have hm : (modelOps indef curve now).fan_GetRpmAvg w = (.ok w.fan.getRpmAvg, w) := rfl
  rw [hm]
  simp only [run_bind, run_pure, c_getRpm]
  simp [FanSt.getRpmAvg, h]

theorem trans3_CmdFan_SetRpmAvg (h : w.fan.kind = .cmd) (x : F64) :
    Generated3.CmdFan_SetRpmAvg indef (cmdFanOps xp xr v0) x w = (modelOps indef curve now).fan_SetRpmAvg x w := by
  unfold Generated3.CmdFan_SetRpmAvg
  have hm : (modelOps indef curve now).fan_SetRpmAvg x w
      = (.ok (), { w with fan := w.fan.setRpmAvg indef x }) := rfl
  rw [hm]
  simp only [run_bind, run_pure, c_setRpm]
  simp [FanSt.setRpmAvg, h]

theorem trans3_CmdFan_ShouldNeverStop (h : w.fan.kind = .cmd) :
    Generated3.CmdFan_ShouldNeverStop indef (cmdFanOps xp xr v0) w = (modelOps indef curve now).fan_ShouldNeverStop w := by
  unfold Generated3.CmdFan_ShouldNeverStop
  simp only [run_bind, run_pure, c_neverStop]
  rfl

theorem trans3_CmdFan_SetPwmEnabled (h : w.fan.kind = .cmd) (v : Int) :
    Generated3.CmdFan_SetPwmEnabled indef (cmdFanOps xp xr v0) v w = (modelOps indef curve now).fan_SetPwmEnabled v w := by
  unfold Generated3.CmdFan_SetPwmEnabled
  have hm : (modelOps indef curve now).fan_SetPwmEnabled v w
      = (.ok (t3ErrOf (setPwmEnabled w.fan w.dev v).2.1), { w with dev := (setPwmEnabled w.fan w.dev v).1 }) := rfl
  rw [hm]
  simp [run_pure, setPwmEnabled, h, t3ErrOf]

theorem trans3_CmdFan_UpdateFanRpmCurveValue (h : w.fan.kind = .cmd) (pwm : Int) (rpm : F64) :
    Generated3.CmdFan_UpdateFanRpmCurveValue indef (cmdFanOps xp xr v0) pwm rpm w
      = (modelOps indef curve now).fan_UpdateFanRpmCurveValue pwm rpm w := by
  unfold Generated3.CmdFan_UpdateFanRpmCurveValue
  have hm : (modelOps indef curve now).fan_UpdateFanRpmCurveValue pwm rpm w = modelUpdateCurveValue pwm rpm w := rfl
  rw [hm]
  simp [run_bind, run_pure, modelUpdateCurveValue, h]

theorem trans3_CmdFan_limits_fixed (h : w.fan.kind = .cmd) (pwm : Int) (force : Bool) :
    Generated3.CmdFan_SetMinPwm indef (cmdFanOps xp xr v0) pwm force w = (.ok (), { w with fan := w.fan.setMin pwm force })
    ∧ Generated3.CmdFan_SetStartPwm indef (cmdFanOps xp xr v0) pwm force w = (.ok (), { w with fan := w.fan.setStart pwm force })
    ∧ Generated3.CmdFan_SetMaxPwm indef (cmdFanOps xp xr v0) pwm force w = (.ok (), { w with fan := w.fan.setMax pwm force }) := by
  unfold Generated3.CmdFan_SetMinPwm Generated3.CmdFan_SetStartPwm Generated3.CmdFan_SetMaxPwm
  simp [run_bind, run_pure, FanSt.setMin, FanSt.setStart, FanSt.setMax, h]

theorem trans3_CmdFan_AttachFanRpmCurveData (h : w.fan.kind = .cmd) (data : Option (List (Int × F64))) :
    Generated3.CmdFan_AttachFanRpmCurveData indef (cmdFanOps xp xr v0) data w
      = (.ok (t3ErrOf (w.fan.attach indef data).2), { w with fan := (w.fan.attach indef data).1 }) := by
  unfold Generated3.CmdFan_AttachFanRpmCurveData
  simp [run_pure, FanSt.attach, h, t3ErrOf]

theorem trans3_CmdFan_GetPwmEnabled_IsPwmAuto (h : w.fan.kind = .cmd) :
    Generated3.CmdFan_GetPwmEnabled indef (cmdFanOps xp xr v0) w = (.ok ((fanGetPwmEnabled w.fan w.dev).1, none), w)
    ∧ Generated3.CmdFan_IsPwmAuto indef (cmdFanOps xp xr v0) w = (.ok (true, none), w) := by
  unfold Generated3.CmdFan_GetPwmEnabled Generated3.CmdFan_IsPwmAuto
  simp [run_pure, fanGetPwmEnabled, h]

end Fan2go
#print axioms Fan2go.trans3_CmdFan_Supports
#print axioms Fan2go.trans3_CmdFan_GetPwm
#print axioms Fan2go.trans3_CmdFan_SetPwm
#print axioms Fan2go.trans3_CmdFan_GetRpm
#print axioms Fan2go.trans3_CmdFan_GetMinPwm
#print axioms Fan2go.trans3_CmdFan_GetMaxPwm
#print axioms Fan2go.trans3_CmdFan_GetStartPwm
#print axioms Fan2go.trans3_CmdFan_GetRpmAvg
#print axioms Fan2go.trans3_CmdFan_SetRpmAvg
#print axioms Fan2go.trans3_CmdFan_ShouldNeverStop
#print axioms Fan2go.trans3_CmdFan_SetPwmEnabled
#print axioms Fan2go.trans3_CmdFan_UpdateFanRpmCurveValue
#print axioms Fan2go.trans3_CmdFan_limits_fixed
#print axioms Fan2go.trans3_CmdFan_AttachFanRpmCurveData
#print axioms Fan2go.trans3_CmdFan_GetPwmEnabled_IsPwmAuto
