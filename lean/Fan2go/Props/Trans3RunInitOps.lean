/-
  Translation tie, third generation: `RunInitializationSequence` (the PWM-map step, the save, the supported inputs, manual
  mode, the RPM-curve measurement loop with its skip / early-return paths, attach, save) — regenerated from
  internal/controller/controller.go on every run — against `runInitD` of Model/Analysis.lean.

  As in Props/Trans3InitOps.lean the translated code runs on the model's state with the ghost map tags erased; here the
  state also carries the fan object (limits, RPM average: `SetRpmAvg`, `AttachFanRpmCurveData`), the controller's last
  request (`setPwm`) and the stored RPM curve. Core Lean only.
-/
import Fan2go.Generated.Trans3
import Fan2go.Model.Analysis
namespace Fan2go
open F64 Fan2go.Startup Fan2go.Analysis

structure RunInitSt where
  pwmMap : Option (List (Int × Int)) := none
  distinct : List Int := []
  lastSet : Option Int := none
  stored : Option (List (Int × Int)) := none
  storedRpm : Option (List (Int × F64)) := none
  regs : Regs := {}
  fan : FanSt

def eraseRun (c : CtlSt) (st : DStore) (r : Regs) (fan : FanSt) : RunInitSt :=
  { pwmMap := c.pwmMap.map (·.2), distinct := c.distinct, lastSet := c.lastSet, stored := st.map.map (·.2),
    storedRpm := st.rpm, regs := r, fan := fan }

/-- the controller fields the model's `setPwm` / `getPwm` look at, rebuilt from the erased state (the tag is irrelevant to them) -/
def RunInitSt.ctl (s : RunInitSt) : CtlSt :=
  { pwmMap := s.pwmMap.map (fun m => (MapSrc.default, m)), distinct := s.distinct, lastSet := s.lastSet }

def runInitOps (indef : Int) (ph : Phys) (cfg : FanCfg) : Generated3.InitOps RunInitSt where
  setPwm := fun t s =>
    match setPwm ph cfg s.ctl s.regs t with
    | .ok (c', r') => (.ok none, { s with lastSet := c'.lastSet, regs := r' })
    | .err e => (.ok (some e), s)
    | .panic p => (.panic p, s)
  getPwm := fun s => (.ok (getPwm cfg s.fan s.ctl s.regs, none), s)
  waitForFanToSettle := fun s => (.ok (), s)
  fan_GetRpm := fun s => (.ok (if cfg.hasRpm then (s.regs.rpm, none) else (0, some "read")), s)
  -- the fan's RPM average while the curve is being measured is not part of the start-up model (regulation re-derives it
  -- from its own polls; `measureLoop` records the readings themselves)
  fan_SetRpmAvg := fun _ s => (.ok (), s)
  fan_AttachFanRpmCurveData := fun d s =>
    (.ok (match (s.fan.attach indef d).2 with | .ok () => none | .err e => some e | .panic p => some p),
     { s with fan := (s.fan.attach indef d).1 })
  persistence_SaveFanPwmData := fun s => (.ok none, { s with storedRpm := curveOf cfg s.fan })
  get_cfg_RunFanInitializationInParallel := fun s => (.ok true, s)
  fan_Supports := fun k s => (.ok (if k = 0 then cfg.pwmRead else if k = 1 then cfg.hasRpm else if k = 2 then cfg.hasMode else false), s)
  fan_GetPwm := fun s => (.ok (if cfg.pwmRead then (s.regs.pwm, none) else (0, some "read")), s)
  fan_SetPwm := fun v s => (.ok none, { s with regs := ph.write s.regs v })
  fan_GetStartPwm := fun s => (.ok s.fan.getStart, s)
  fan_GetId := fun s => (.ok "id", s)
  trySetManualPwm := fun s => (.ok none, { s with regs := trySetManual ph cfg s.regs })
  persistence_LoadFanPwmMap := fun _ s =>
    (.ok (match s.stored with | some m => (some m, none) | none => (none, some "not found")), s)
  persistence_SaveFanPwmMap := fun _ m s => (.ok none, { s with stored := m })
  interpolateLinearlyInt := fun m a b s =>
    (if m = some [(0, 0), (255, 255)] ∧ a = 0 ∧ b = 255 then .ok (some (defaultPwmMap indef)) else .panic "interpolate-arguments", s)
  sortInts := fun a s => (.ok (a.toList.mergeSort (fun x y => decide (x ≤ y))).toArray, s)
  typeTag_fan := fun s => (.ok (match cfg.kind with | .hwmon => 0 | .cmd => 1 | .file => 2), s)
  get_fan_Config_PwmMap := fun s => (.ok cfg.cfgMap, s)
  get_pwmMap := fun s => (.ok s.pwmMap, s)
  set_pwmMap := fun m s => (.ok (), { s with pwmMap := m })
  get_pwmValuesWithDistinctTarget := fun s => (.ok s.distinct.toArray, s)
  set_pwmValuesWithDistinctTarget := fun a s => (.ok (), { s with distinct := a.toList })

end Fan2go
