/-
  C08  Sensor smoothing stays within observed readings, converges, ignores failed reads
       (internal/util/math.go `UpdateSimpleMovingAvg`, internal/monitor.go `updateSensor`,
        internal/sensors/{hwmon,file,cmd}.go `GetValue`; models: Model/Util.lean, Model/Sensor.lean)

  `upd n avg x = updateSimpleMovingAvg avg n x = avg ⊕ ((1 ⊘ float64(n)) ⊗ (x ⊖ avg))` in binary64
  (⊕ ⊖ ⊗ ⊘ correctly rounded, overflow to ±Inf, NaN). `Fin64 q` : `q` is the value of a finite double.

  RESULT
  * failed / non-finite reads leave the average unchanged          – PROVED (`C08_failed_read_*`)
  * hull for window sizes n ≥ 2 (differences below 2^1023)         – PROVED (`C08_hull_n2`, `_history`)
  * hull "for all window sizes ≥ 1 and all finite readings"         – REFUTED (`C08_hull_refuted`):
      n = 1 computes a ⊕ (b ⊖ a), which is b only when b − a is representable
      (`C08_hull_n1`); witnesses 2^54 ↦ 1 gives 0, and 76.228 ↦ 0.211 gives 0.21099999999999852.
      For n ≥ 2 the only failure is overflow of x − avg (`C08_hull_overflow_witness`).
  * geometric convergence with factor 1 − 1/n                        – PROVED up to an explicit rounding
      slack 2^-48·M + 2^-1072 per poll (`C08_converge`, `C08_converge_hist`); the literal claim
      "shrinks by the factor 1 − 1/n" cannot hold exactly in floating point.
-/
import Fan2go.Proofs.MovingAvg
namespace Fan2go
open F64

/-! ### failed reads -/

/-- which polls fail: hwmon/file – the read failed; cmd – the command failed, printed garbage, or
    printed a NaN / ±Inf. -/
theorem C08_failure_classes :
    (∃ e, sensorGetValue .hwmon .readFail = .err e) ∧
    (∃ e, sensorGetValue .file .readFail = .err e) ∧
    (∃ e, sensorGetValue .cmd .execErr = .err e) ∧
    (∃ e, sensorGetValue .cmd .parseErr = .err e) ∧
    (∃ e, sensorGetValue .cmd (.parsed nan) = .err e) ∧
    (∀ s, ∃ e, sensorGetValue .cmd (.parsed (inf s)) = .err e) :=
  ⟨⟨_, rfl⟩, ⟨_, rfl⟩, ⟨_, rfl⟩, ⟨_, rfl⟩, ⟨_, rfl⟩, fun _ => ⟨_, rfl⟩⟩

/-- `GetValue` never panics, and an accepted cmd reading is finite. -/
theorem C08_getValue_total (k : SensorKind) (io : SensorIo) :
    (∃ v, sensorGetValue k io = .ok v) ∨ (∃ e, sensorGetValue k io = .err e) := by
  cases k <;> cases io <;> simp [sensorGetValue]
  all_goals (split_ifs <;> simp)

/-- A poll whose read fails leaves the smoothed value unchanged and reports the error. -/
theorem C08_failed_read_unchanged (n : Int) (avg : F64) (k : SensorKind) (io : SensorIo) (e : String)
    (h : sensorGetValue k io = .err e) :
    (updateSensor n avg k io).1 = avg ∧ (updateSensor n avg k io).2 = .err e := by
  unfold updateSensor; rw [h]; exact ⟨rfl, rfl⟩

/-- in particular for each of the failure classes -/
theorem C08_failed_read_classes (n : Int) (avg : F64) :
    (updateSensor n avg .hwmon .readFail).1 = avg ∧ (updateSensor n avg .file .readFail).1 = avg ∧
    (updateSensor n avg .cmd .execErr).1 = avg ∧ (updateSensor n avg .cmd .parseErr).1 = avg ∧
    (updateSensor n avg .cmd (.parsed nan)).1 = avg ∧
    (∀ s, (updateSensor n avg .cmd (.parsed (inf s))).1 = avg) :=
  ⟨rfl, rfl, rfl, rfl, rfl, fun _ => rfl⟩

/-- A successful read feeds exactly the value read into the moving average. -/
theorem C08_ok_read_updates (n : Int) (avg : F64) :
    (∀ r, updateSensor n avg .hwmon (.readOk r) = (upd n avg (ofInt r), .ok ())) ∧
    (∀ r, updateSensor n avg .file (.readOk r) = (upd n avg (ofInt r), .ok ())) ∧
    (∀ q, updateSensor n avg .cmd (.parsed (fin q)) = (upd n avg (fin q), .ok ())) :=
  ⟨fun _ => rfl, fun _ => rfl, fun _ => rfl⟩

/-- an accepted reading is never NaN / ±Inf when it comes from a cmd sensor or from an integer file
    with |value| ≤ 2^53 (every realistic millidegree reading). -/
theorem C08_ok_read_finite (k : SensorKind) (io : SensorIo) (v : F64)
    (h : sensorGetValue k io = .ok v) (hsmall : ∀ r, io = .readOk r → |r| ≤ 2 ^ 53) :
    v.isFinite = true := by
  cases k with
  | hwmon =>
    cases io with
    | readOk r => simp only [sensorGetValue] at h; cases h; rw [b_ofInt r (hsmall r rfl)]; rfl
    | _ => simp [sensorGetValue] at h
  | file =>
    cases io with
    | readOk r => simp only [sensorGetValue] at h; cases h; rw [b_ofInt r (hsmall r rfl)]; rfl
    | _ => simp [sensorGetValue] at h
  | cmd =>
    cases io with
    | parsed w =>
      simp only [sensorGetValue] at h
      split_ifs at h with hf
      cases h; exact hf
    | _ => simp [sensorGetValue] at h

/-- why a non-finite reading has to be rejected: NaN in either position poisons the average, and a
    NaN average stays NaN forever. -/
theorem C08_nan_absorbing (n : Int) (avg x : F64) : upd n nan x = nan ∧ upd n avg nan = nan :=
  ⟨upd_nan_left n x, upd_nan_right n avg⟩

example : (updateSensor 10 (fin 42) .cmd (.parsed nan)).1 = fin 42 :=
  (C08_failed_read_unchanged 10 (fin 42) .cmd (.parsed nan) _ rfl).1

/-! ### hull, window ≥ 2 -/

/-- One poll, window 2 ≤ n ≤ 2^53, finite average `a` and reading `b` whose difference does not
    overflow: the new average is a finite double between them. -/
theorem C08_hull_n2 (n : Int) (avg x : F64) (a b : ℚ) (h2 : 2 ≤ n) (hn : n ≤ 2 ^ 53)
    (havg : avg = fin a) (hx : x = fin b) (ha : Fin64 a) (hb : Fin64 b)
    (hd : |b - a| ≤ pow2 1023) :
    ∃ c, upd n avg x = fin c ∧ Fin64 c ∧ min a b ≤ c ∧ c ≤ max a b := by
  subst havg hx; exact upd_hull h2 hn ha hb hd

example : ∃ c, upd 10 (fin 40000) (fin 45000) = fin c ∧ Fin64 c ∧ min 40000 45000 ≤ c ∧
    c ≤ max 40000 45000 := by
  have i4 : Fin64 ((40000 : Int) : ℚ) := fin64_intCast (by norm_num)
  have i5 : Fin64 ((45000 : Int) : ℚ) := fin64_intCast (by norm_num)
  have hp : (5000 : ℚ) ≤ pow2 1023 := by
    have : pow2 13 ≤ pow2 1023 := pow2_mono (by norm_num)
    have e : pow2 13 = 8192 := by
      rw [show (13 : ℤ) = ((13 : ℕ) : ℤ) by norm_num, pow2_natCast']; norm_num
    linarith
  exact C08_hull_n2 10 _ _ 40000 45000 (by norm_num) (by norm_num) rfl rfl
    (by simpa using i4) (by simpa using i5) (by norm_num; exact hp)

/-- Whole history: starting from `a0` and polling the finite readings `bs` (all inside a band
    `[L, U]` of width ≤ 2^1023 that also contains `a0`), the average is a finite double in `[L, U]`. -/
theorem C08_hull_history_band (n : Int) (h2 : 2 ≤ n) (hn : n ≤ 2 ^ 53) (L U a0 : ℚ) (bs : List ℚ)
    (hw : U - L ≤ pow2 1023) (ha : Fin64 a0) (hl : L ≤ a0) (hu : a0 ≤ U)
    (hb : ∀ b ∈ bs, Fin64 b ∧ L ≤ b ∧ b ≤ U) :
    ∃ c, (bs.map fin).foldl (upd n) (fin a0) = fin c ∧ Fin64 c ∧ L ≤ c ∧ c ≤ U :=
  upd_hull_history h2 hn hw bs hb a0 ha hl hu

/-- … in particular between the smallest and the largest of the initial value and all readings. -/
theorem C08_hull_history (n : Int) (h2 : 2 ≤ n) (hn : n ≤ 2 ^ 53) (a0 : ℚ) (bs : List ℚ)
    (ha : Fin64 a0) (hb : ∀ b ∈ bs, Fin64 b)
    (hw : bs.foldl max a0 - bs.foldl min a0 ≤ pow2 1023) :
    ∃ c, (bs.map fin).foldl (upd n) (fin a0) = fin c ∧ Fin64 c ∧
      bs.foldl min a0 ≤ c ∧ c ≤ bs.foldl max a0 :=
  upd_hull_history h2 hn hw bs
    (fun b hm => ⟨hb b hm, q_foldl_min_le_mem bs a0 b hm, q_foldl_max_ge_mem bs a0 b hm⟩)
    a0 ha (q_foldl_min_le_init bs a0) (q_foldl_max_ge_init bs a0)

example : ∃ c, ([1, 0, 1].map fin).foldl (upd 2) (fin 0) = fin c ∧ Fin64 c ∧ 0 ≤ c ∧ c ≤ 1 := by
  have f0 : Fin64 0 := fin64_zero
  have f1 : Fin64 1 := fin64_one
  have h := C08_hull_history_band 2 (by norm_num) (by norm_num) 0 1 0 [1, 0, 1]
    (by norm_num; exact one_le_pow2_1023) f0 le_rfl (by norm_num)
    (by intro b hb; simp at hb; rcases hb with rfl | rfl | rfl <;> simp [f0, f1])
  exact h

/-! ### hull, window 1, and the refutation of the unrestricted claim -/

/-- window 1: the average becomes the reading provided the difference is exactly representable. -/
theorem C08_hull_n1 (a b : ℚ) (hb : Fin64 b) (hr : Rep64 (b - a)) (hd : |b - a| ≤ pow2 1023) :
    upd 1 (fin a) (fin b) = fin b := upd_one_exact hb hr hd

/-- window 1 in general: `a ⊕ (b ⊖ a)`. -/
theorem C08_n1_formula (a b : ℚ) (hd : |b - a| ≤ pow2 1023) :
    upd 1 (fin a) (fin b) = ofRat (a + fl64 (b - a)) := upd_one hd

example : upd 1 (fin 3) (fin 5) = fin 5 := by
  have h5 : Fin64 ((5 : Int) : ℚ) := fin64_intCast (by norm_num)
  have h2 : Rep64 ((2 : Int) : ℚ) := rep64_intCast 2 (by norm_num)
  have hp : (2 : ℚ) ≤ pow2 1023 := by
    rw [← pow2_one]; exact pow2_mono (by norm_num)
  exact C08_hull_n1 3 5 (by simpa using h5) (by norm_num; simpa using h2) (by norm_num; exact hp)

/-- The property's hull claim as written: all window sizes ≥ 1, all finite averages and readings. -/
def C08_hull_statement : Prop :=
  ∀ (n : Int) (a b : ℚ), 1 ≤ n → n ≤ 2 ^ 53 → Fin64 a → Fin64 b →
    ∃ c, upd n (fin a) (fin b) = fin c ∧ min a b ≤ c ∧ c ≤ max a b

/-- witness 1 (n = 1): average 2^54, reading 1 ↦ 0, below both. -/
theorem C08_hull_n1_witness :
    Fin64 w54 ∧ Fin64 1 ∧ upd 1 (fin w54) (fin 1) = fin 0 ∧ (0 : ℚ) < min w54 1 :=
  ⟨fin64_w54, fin64_one, upd_w54, by rw [lt_min_iff]; constructor <;> decide +kernel⟩

/-- witness 2 (n = 1, everyday magnitudes): average 76.228, reading 0.211 ↦ 0.21099999999999852,
    below both. -/
theorem C08_hull_n1_witness_small :
    Fin64 w76 ∧ Fin64 w0211 ∧
    upd 1 (fin w76) (fin w0211) = fin (7602076171001344 / 36028797018963968) ∧
    (7602076171001344 / 36028797018963968 : ℚ) < min w76 w0211 :=
  ⟨fin64_w76, fin64_w0211, upd_w76, upd_w76_lt⟩

/-- witness 3 (n = 2, overflow): average −MAX, reading +MAX ↦ +Inf. -/
theorem C08_hull_overflow_witness :
    Fin64 (-maxFin) ∧ Fin64 maxFin ∧ upd 2 (fin (-maxFin)) (fin maxFin) = inf false :=
  ⟨fin64_neg fin64_maxFin, fin64_maxFin, upd_overflow⟩

theorem C08_hull_refuted : ¬ C08_hull_statement := by
  intro h
  obtain ⟨f1, f2, e, lt⟩ := C08_hull_n1_witness
  obtain ⟨c, ec, lo, _⟩ := h 1 w54 1 le_rfl (by norm_num) f1 f2
  rw [e] at ec
  have : (0 : ℚ) = c := F64.fin.inj ec
  subst this
  exact absurd lo (not_le.mpr lt)

/-- restricting the claim to windows ≥ 2 does not save it without the no-overflow guard. -/
theorem C08_hull_n2_needs_guard :
    ¬ (∀ (n : Int) (a b : ℚ), 2 ≤ n → n ≤ 2 ^ 53 → Fin64 a → Fin64 b →
        ∃ c, upd n (fin a) (fin b) = fin c ∧ min a b ≤ c ∧ c ≤ max a b) := by
  intro h
  obtain ⟨f1, f2, e⟩ := C08_hull_overflow_witness
  obtain ⟨c, ec, _⟩ := h 2 (-maxFin) maxFin le_rfl (by norm_num) f1 f2
  rw [e] at ec
  cases ec

/-! ### convergence -/

/-- One poll with reading `c`, any window 1 ≤ n ≤ 2^53, `|a|, |c| ≤ M ≤ 2^1000`: the distance to `c`
    shrinks by the factor `1 − 1/n` up to the rounding slack `2^-48·M + 2^-1072`. -/
theorem C08_converge (n : Int) (a c M : ℚ) (h1 : 1 ≤ n) (hn : n ≤ 2 ^ 53) (ha : |a| ≤ M)
    (hc : |c| ≤ M) (hM : M ≤ pow2 1000) :
    ∃ a', upd n (fin a) (fin c) = fin a' ∧ Rep64 a' ∧
      |a' - c| ≤ (1 - 1 / (n : ℚ)) * |a - c| + pow2 (-48) * M + pow2 (-1072) :=
  upd_contract h1 hn ha hc hM

/-- `k` polls with the constant reading `c` (window 2 ≤ n ≤ 2^53): the average stays between `a0` and
    `c`, and its distance to `c` is at most `(1 − 1/n)^k·|a0 − c|` plus `n` times the one-step slack. -/
theorem C08_converge_hist (n : Int) (a0 c M : ℚ) (k : Nat) (h2 : 2 ≤ n) (hn : n ≤ 2 ^ 53)
    (ha : Fin64 a0) (hc : Fin64 c) (haM : |a0| ≤ M) (hcM : |c| ≤ M) (hM : M ≤ pow2 1000) :
    ∃ ak, pollConst n c k (fin a0) = fin ak ∧ Fin64 ak ∧ min a0 c ≤ ak ∧ ak ≤ max a0 c ∧
      |ak - c| ≤ (1 - 1 / (n : ℚ)) ^ k * |a0 - c| + n * (pow2 (-48) * M + pow2 (-1072)) :=
  upd_converge_hist h2 hn ha hc haM hcM hM k

example : ∃ ak, pollConst 2 1 5 (fin 0) = fin ak ∧ Fin64 ak ∧ min 0 1 ≤ ak ∧ ak ≤ max 0 1 ∧
    |ak - 1| ≤ (1 - 1 / ((2 : Int) : ℚ)) ^ 5 * |0 - 1| + (2 : Int) * (pow2 (-48) * 1 + pow2 (-1072)) :=
  C08_converge_hist 2 0 1 1 5 (by norm_num) (by norm_num) fin64_zero fin64_one (by norm_num)
    (by norm_num) (by rw [← pow2_zero]; exact pow2_mono (by norm_num))

end Fan2go

#print axioms Fan2go.C08_failure_classes
#print axioms Fan2go.C08_getValue_total
#print axioms Fan2go.C08_failed_read_unchanged
#print axioms Fan2go.C08_failed_read_classes
#print axioms Fan2go.C08_ok_read_updates
#print axioms Fan2go.C08_ok_read_finite
#print axioms Fan2go.C08_nan_absorbing
#print axioms Fan2go.C08_hull_n2
#print axioms Fan2go.C08_hull_history_band
#print axioms Fan2go.C08_hull_history
#print axioms Fan2go.C08_hull_n1
#print axioms Fan2go.C08_n1_formula
#print axioms Fan2go.C08_hull_n1_witness
#print axioms Fan2go.C08_hull_n1_witness_small
#print axioms Fan2go.C08_hull_overflow_witness
#print axioms Fan2go.C08_hull_refuted
#print axioms Fan2go.C08_hull_n2_needs_guard
#print axioms Fan2go.C08_converge
#print axioms Fan2go.C08_converge_hist
