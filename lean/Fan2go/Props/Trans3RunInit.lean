import Fan2go.Props.Trans3RunInitOps
import Fan2go.Props.Trans3Init
namespace Fan2go
open F64 Fan2go.Startup Fan2go.Analysis
set_option linter.unusedSimpArgs false
set_option linter.unusedVariables false

/-! ### helpers: the fields of `runInitOps` (all by `rfl`), the sweep loop over `RunInitSt` -/
namespace T3R
open T3G T3I
variable (indef : Int) (ph : Phys) (cfg : FanCfg)

theorem r_getMap (s : RunInitSt) : (runInitOps indef ph cfg).get_pwmMap s = (.ok s.pwmMap, s) := rfl
theorem r_setMap (s : RunInitSt) (m) : (runInitOps indef ph cfg).set_pwmMap m s = (.ok (), { s with pwmMap := m }) := rfl
theorem r_sort (s : RunInitSt) (a : Array Int) : (runInitOps indef ph cfg).sortInts a s
    = (.ok (a.toList.mergeSort (fun x y => decide (x ≤ y))).toArray, s) := rfl
theorem r_setDistinct (s : RunInitSt) (a : Array Int) : (runInitOps indef ph cfg).set_pwmValuesWithDistinctTarget a s
    = (.ok (), { s with distinct := a.toList }) := rfl
theorem r_getDistinct (s : RunInitSt) : (runInitOps indef ph cfg).get_pwmValuesWithDistinctTarget s
    = (.ok s.distinct.toArray, s) := rfl
theorem r_tag (s : RunInitSt) : (runInitOps indef ph cfg).typeTag_fan s
    = (.ok (match cfg.kind with | .hwmon => 0 | .cmd => 1 | .file => 2), s) := rfl
theorem r_cfgMap (s : RunInitSt) : (runInitOps indef ph cfg).get_fan_Config_PwmMap s = (.ok cfg.cfgMap, s) := rfl
theorem r_id (s : RunInitSt) : (runInitOps indef ph cfg).fan_GetId s = (.ok "id", s) := rfl
theorem r_load (s : RunInitSt) (x : String) : (runInitOps indef ph cfg).persistence_LoadFanPwmMap x s
    = (.ok (match s.stored with | some m => (some m, none) | none => (none, some "not found")), s) := rfl
theorem r_save (s : RunInitSt) (x : String) (m) : (runInitOps indef ph cfg).persistence_SaveFanPwmMap x m s
    = (.ok none, { s with stored := m }) := rfl
theorem r_par (s : RunInitSt) : (runInitOps indef ph cfg).get_cfg_RunFanInitializationInParallel s = (.ok true, s) := rfl
theorem r_settle (s : RunInitSt) : (runInitOps indef ph cfg).waitForFanToSettle s = (.ok (), s) := rfl
theorem r_setRpmAvg (s : RunInitSt) (x : F64) : (runInitOps indef ph cfg).fan_SetRpmAvg x s = (.ok (), s) := rfl
theorem r_saveData (s : RunInitSt) : (runInitOps indef ph cfg).persistence_SaveFanPwmData s
    = (.ok none, { s with storedRpm := curveOf cfg s.fan }) := rfl
theorem r_attach (s : RunInitSt) (d) : (runInitOps indef ph cfg).fan_AttachFanRpmCurveData d s
    = (.ok (match (s.fan.attach indef d).2 with | .ok () => none | .err e => some e | .panic p => some p),
       { s with fan := (s.fan.attach indef d).1 }) := rfl
theorem r_ctlGetPwm (s : RunInitSt) : (runInitOps indef ph cfg).getPwm s
    = (.ok (getPwm cfg s.fan s.ctl s.regs, none), s) := rfl
theorem r_ctlSetPwm (s : RunInitSt) (t : Int) : (runInitOps indef ph cfg).setPwm t s
    = (match setPwm ph cfg s.ctl s.regs t with
       | .ok (c', r') => (.ok none, { s with lastSet := c'.lastSet, regs := r' })
       | .err e => (.ok (some e), s)
       | .panic p => (.panic p, s)) := rfl
theorem r_getRpm (s : RunInitSt) : (runInitOps indef ph cfg).fan_GetRpm s
    = (.ok (if cfg.hasRpm then (s.regs.rpm, none) else (0, some "read")), s) := rfl

theorem applyMapping_run (s : RunInitSt) (k : Int) :
    Generated3.init_applyPwmMapping indef (runInitOps indef ph cfg) k s = (.ok (Go.mapGetOpt s.pwmMap k), s) := rfl

theorem r_setPwm (s : RunInitSt) (v : Int) : (runInitOps indef ph cfg).fan_SetPwm v s = (.ok none, { s with regs := ph.write s.regs v }) := rfl
theorem r_getPwm (s : RunInitSt) : (runInitOps indef ph cfg).fan_GetPwm s
    = (.ok (if cfg.pwmRead then (s.regs.pwm, none) else (0, some "read")), s) := rfl
theorem r_getPwm' (hp : cfg.pwmRead = true) (s : RunInitSt) : (runInitOps indef ph cfg).fan_GetPwm s
    = (.ok (s.regs.pwm, none), s) := by rw [r_getPwm, hp]; rfl

theorem sweep_loop (hp : cfg.pwmRead = true) : ∀ (n : Nat) (s : RunInitSt) (acc : List (Int × Int)),
    (∀ p ∈ acc.head?, (n : Int) < p.1) →
    forIn (m := GoM RunInitSt) (Go.downFrom (n : Int) 0) (some acc)
              (fun i __s => do
                let _ ← (runInitOps indef ph cfg).fan_SetPwm i
                let __r23 ← (runInitOps indef ph cfg).fan_GetPwm
                if __r23.2 ≠ none then do
                    let __do_lift ← Go.deref __s
                    pure (ForInStep.yield (some (Go.mapPut __do_lift i __r23.1)))
                  else do
                    let __do_lift ← Go.deref __s
                    pure (ForInStep.yield (some (Go.mapPut __do_lift i __r23.1))))
              s
      = (.ok (some (sweepFrom ph n s.regs acc).2), { s with regs := (sweepFrom ph n s.regs acc).1 }) := by
  intro n
  induction n with
  | zero =>
    intro s acc h
    rw [downFrom_zero, List.forIn_cons]
    simp only [run_bind, run_pure, run_ite, r_setPwm, r_getPwm' indef ph cfg hp, ne_eq, not_true_eq_false, if_false,
      run_deref_some, List.forIn_nil]
    have h' : ∀ p ∈ acc.head?, (0 : Int) < p.1 := h
    rw [mapPut_lt _ _ _ h']
    simp [sweepFrom]
  | succ n ih =>
    intro s acc h
    rw [downFrom_succ, List.forIn_cons]
    simp only [run_bind, run_pure, run_ite, r_setPwm, r_getPwm' indef ph cfg hp, ne_eq, not_true_eq_false, if_false,
      run_deref_some]
    rw [mapPut_lt _ _ _ h]
    rw [ih]
    · simp [sweepFrom]
    · intro p hp'
      simp at hp'
      subst hp'
      simp

theorem r_supports0 (s : RunInitSt) : (runInitOps indef ph cfg).fan_Supports 0 s = (.ok cfg.pwmRead, s) := rfl
theorem r_supports1 (s : RunInitSt) : (runInitOps indef ph cfg).fan_Supports 1 s = (.ok cfg.hasRpm, s) := rfl
theorem r_interp (s : RunInitSt) : (runInitOps indef ph cfg).interpolateLinearlyInt (some [(0, 0), (255, 255)]) 0 255 s
    = (.ok (some (defaultPwmMap indef)), s) := by
  show ((if _ then _ else _), s) = _
  simp
theorem r_manual (s : RunInitSt) : (runInitOps indef ph cfg).trySetManualPwm s
    = (.ok none, { s with regs := trySetManual ph cfg s.regs }) := rfl
theorem r_getStart (s : RunInitSt) : (runInitOps indef ph cfg).fan_GetStartPwm s = (.ok s.fan.getStart, s) := rfl

theorem sweep_loop255 (hp : cfg.pwmRead = true) (s : RunInitSt) :
    forIn (m := GoM RunInitSt) (Go.downFrom 255 0) (some [])
              (fun i __s => do
                let _ ← (runInitOps indef ph cfg).fan_SetPwm i
                let __r23 ← (runInitOps indef ph cfg).fan_GetPwm
                if __r23.2 ≠ none then do
                    let __do_lift ← Go.deref __s
                    pure (ForInStep.yield (some (Go.mapPut __do_lift i __r23.1)))
                  else do
                    let __do_lift ← Go.deref __s
                    pure (ForInStep.yield (some (Go.mapPut __do_lift i __r23.1))))
              s
      = (.ok (some (sweep ph s.regs).2), { s with regs := (sweep ph s.regs).1 }) :=
  sweep_loop indef ph cfg hp 255 s [] (by simp)

theorem putF_eq : ∀ (m : List (Int × F64)) (k : Int) (v : F64), putF m k v = Go.mapPut m k v
  | [], k, v => rfl
  | (k', v') :: rest, k, v => by
    simp only [putF, Go.mapPut, putF_eq rest k v]

end T3R
open T3G T3I T3R

variable (indef : Int) (ph : Phys) (cfg : FanCfg) (fan : FanSt) (c : CtlSt) (st : DStore) (r : Regs)

theorem trans3_run_computePwmMapAutomatically :
    Generated3.init_computePwmMapAutomatically indef (runInitOps indef ph cfg) (eraseRun c st r fan)
      = (.ok (), eraseRun (computeAuto indef ph cfg fan c r).2.1 st (computeAuto indef ph cfg fan c r).2.2 fan) := by
  unfold Generated3.init_computePwmMapAutomatically
  cases hp : cfg.pwmRead
  · simp only [run_bind, run_pure, run_ite, r_supports0, hp, r_interp, r_setMap]
    simp [computeAuto, hp, eraseRun]
  · simp only [run_bind, run_pure, run_ite, r_supports0, hp, r_manual, sweep_loop255 indef ph cfg hp, r_setMap,
      r_getStart, r_setPwm, not_true_eq_false, if_false]
    rw [T3R.applyMapping_run]
    simp [computeAuto, hp, eraseRun, Go.mapGetOpt, goMapGet_eq]

theorem trans3_run_computePwmMapLocked :
    Generated3.init_computePwmMapLocked indef (runInitOps indef ph cfg) (eraseRun c st r fan)
      = (.ok none, eraseRun (computePwmMapLockedD indef ph cfg fan c st r).2.1
                            (computePwmMapLockedD indef ph cfg fan c st r).2.2.1
                            (computePwmMapLockedD indef ph cfg fan c st r).2.2.2 fan) := by
  unfold Generated3.init_computePwmMapLocked
  have hauto := trans3_run_computePwmMapAutomatically indef ph cfg fan c st r
  cases hk : cfg.kind <;> cases hm : cfg.cfgMap <;>
    simp only [run_bind, run_pure, run_ite, r_tag, hk, r_cfgMap, hm, r_id, r_load, r_save, r_getMap, r_setMap,
      run_deref_some, run_deref_none, ne_eq, not_true_eq_false, if_false, if_true, reduceCtorEq, not_false_eq_true, Int.reduceEq, hauto]
  all_goals
    unfold computePwmMapLockedD
    simp only [hm]
    cases hs : st.map <;> cases hc : c.pwmMap <;> simp [eraseRun, hs, hc]

theorem trans3_run_updateDistinctPwmValues
    (hs : ∀ p, c.pwmMap = some p → SortedMap p.2) :
    Generated3.init_updateDistinctPwmValues indef (runInitOps indef ph cfg) (eraseRun c st r fan)
      = (.ok (), eraseRun (updateDistinct c) st r fan) := by
  unfold Generated3.init_updateDistinctPwmValues
  have hsm : SortedMap ((eraseRun c st r fan).pwmMap.getD []) := by
    unfold eraseRun
    cases h : c.pwmMap with
    | none => simp [SortedMap]
    | some p => simpa using hs p h
  simp only [run_bind, run_pure, r_getMap, run_liftRes, trans2_util_ExtractKeysWithDistinctValues indef _ hsm,
    r_sort, r_setDistinct]
  have hsorted := extractKeys_sorted _ hsm
  rw [List.mergeSort_of_pairwise (le := fun x y => decide (x ≤ y))]
  · unfold updateDistinct eraseRun
    cases h : c.pwmMap <;> simp [extractKeys, extractKeysAux]
  · exact hsorted.imp (fun h => by simpa using Int.le_of_lt h)

/-! ### the controller's `setPwm` / `getPwm` / `applyPwmMapping` on an erased state -/

theorem ctl_mapping (k : Int) : (eraseRun c st r fan).ctl.mapping k = c.mapping k := by
  unfold CtlSt.mapping RunInitSt.ctl eraseRun
  cases h : c.pwmMap <;> simp

theorem run_mapping (k : Int) : Go.mapGetOpt (eraseRun c st r fan).pwmMap k = c.mapping k := by
  unfold CtlSt.mapping eraseRun Go.mapGetOpt
  cases h : c.pwmMap <;> simp [goMapGet_eq]

theorem run_ctlGetPwm : getPwm cfg (eraseRun c st r fan).fan (eraseRun c st r fan).ctl (eraseRun c st r fan).regs
    = getPwm cfg fan c r := rfl

theorem run_ctlSetPwm (t : Int) : (runInitOps indef ph cfg).setPwm t (eraseRun c st r fan)
    = (match setPwm ph cfg c r t with
       | .ok (c', r') => (.ok none, eraseRun c' st r' fan)
       | .err e => (.ok (some e), eraseRun c st r fan)
       | .panic p => (.panic p, eraseRun c st r fan)) := by
  rw [r_ctlSetPwm]
  unfold setPwm
  have hd : (eraseRun c st r fan).ctl.distinct = c.distinct := rfl
  have hr : (eraseRun c st r fan).regs = r := rfl
  simp only [ctl_mapping, hd, hr]
  cases findClosest t c.distinct.toArray with
  | ok v =>
    simp only
    by_cases hh : (cfg.pwmRead && c.mapping v == r.pwm) = true
    · simp only [hh, if_true]; rfl
    · simp only [hh, if_false]; rfl
  | err e => rfl
  | panic p => rfl

/-- the measurement loop: `measureLoop` from any point on. The error variable and the first-measurement flag the loop
    carries along are not read after it. -/
theorem meas_loop (hr : cfg.hasRpm = true) : ∀ (ds : List Int) (c : CtlSt) (r : Regs) (acc : List (Int × F64))
    (err0 : Option String) (flag : Bool),
    ∃ (e' : Option String) (fl : Bool),
    forIn (m := GoM RunInitSt) ds ((none : Option (Option String)), err0, some acc, flag)
      (fun pwm __s => do
        let __do_lift ← (runInitOps indef ph cfg).setPwm pwm
        if __do_lift ≠ none then
            pure (ForInStep.done (some __do_lift, __do_lift, __s.2.2.1, __s.2.2.2))
          else do
            let __do_lift_1 ← Generated3.init_applyPwmMapping indef (runInitOps indef ph cfg) pwm
            let __r25 ← (runInitOps indef ph cfg).getPwm
            if __r25.2 ≠ none then
                pure (ForInStep.done (some __r25.2, __do_lift, __s.2.2.1, __s.2.2.2))
              else
                if __r25.1 ≠ __do_lift_1 then
                  pure (ForInStep.yield (none, __do_lift, __s.2.2.1, __s.2.2.2))
                else
                  if __s.2.2.2 = true then do
                    (runInitOps indef ph cfg).waitForFanToSettle
                    let __r26 ← (runInitOps indef ph cfg).fan_GetRpm
                    if __r26.2 ≠ none then
                        pure (ForInStep.done (some __r26.2, __do_lift, __s.2.2.1, false))
                      else do
                        (runInitOps indef ph cfg).fan_SetRpmAvg (ofInt __r26.1)
                        let __do_lift_2 ← Go.deref __s.2.2.1
                        pure (ForInStep.yield (none, __do_lift, some (Go.mapPut __do_lift_2 pwm (ofInt __r26.1)), false))
                  else do
                    let __r26 ← (runInitOps indef ph cfg).fan_GetRpm
                    if __r26.2 ≠ none then
                        pure (ForInStep.done (some __r26.2, __do_lift, __s.2.2.1, __s.2.2.2))
                      else do
                        (runInitOps indef ph cfg).fan_SetRpmAvg (ofInt __r26.1)
                        let __do_lift_2 ← Go.deref __s.2.2.1
                        pure (ForInStep.yield (none, __do_lift, some (Go.mapPut __do_lift_2 pwm (ofInt __r26.1)), __s.2.2.2)))
      (eraseRun c st r fan)
    = ((match (measureLoop ph cfg fan ds c r acc).res with
        | .ok () => .ok (none, e', some (measureLoop ph cfg fan ds c r acc).data, fl)
        | .err e => .ok (some (some e), e', some (measureLoop ph cfg fan ds c r acc).data, fl)
        | .panic p => .panic p),
       eraseRun (measureLoop ph cfg fan ds c r acc).ctl st (measureLoop ph cfg fan ds c r acc).regs fan) := by
  intro ds
  induction ds with
  | nil =>
    intro c r acc err0 flag
    exact ⟨err0, flag, rfl⟩
  | cons pwm rest ih =>
    intro c r acc err0 flag
    rw [List.forIn_cons]
    simp only [run_bind, run_ctlSetPwm]
    rw [measureLoop]
    cases hsp : setPwm ph cfg c r pwm with
    | err e =>
      refine ⟨some e, flag, ?_⟩
      simp [run_pure, run_ite]
    | panic p =>
      refine ⟨none, flag, ?_⟩
      simp [run_pure, run_ite]
    | ok v =>
      obtain ⟨c', r'⟩ := v
      simp only [run_pure, run_ite, run_bind, T3R.applyMapping_run, r_ctlGetPwm, run_mapping, run_ctlGetPwm, ne_eq,
        not_true_eq_false, if_false]
      by_cases hne : getPwm cfg fan c' r' = c'.mapping pwm
      · obtain ⟨e', fl, h⟩ := ih c' r' (Go.mapPut acc pwm (ofInt r'.rpm)) none false
        refine ⟨e', fl, ?_⟩
        have hrpm : (eraseRun c' st r' fan).regs.rpm = r'.rpm := rfl
        cases flag <;>
          simp only [hne, not_true_eq_false, if_false, if_true, r_settle, r_getRpm, hr, r_setRpmAvg, run_deref_some, run_bind,
            run_pure, run_ite, putF_eq, hrpm, h, ne_eq, Bool.false_eq_true]
      · obtain ⟨e', fl, h⟩ := ih c' r' acc none flag
        refine ⟨e', fl, ?_⟩
        simp only [hne, not_false_eq_true, if_true, h, ne_eq]

theorem run_saveMap (x : String) :
    (runInitOps indef ph cfg).persistence_SaveFanPwmMap x (eraseRun c st r fan).pwmMap (eraseRun c st r fan)
      = (.ok none, eraseRun c { st with map := c.pwmMap } r fan) := rfl
theorem run_manual : (runInitOps indef ph cfg).trySetManualPwm (eraseRun c st r fan)
    = (.ok none, eraseRun c st (trySetManual ph cfg r) fan) := rfl
theorem run_getDistinct : (runInitOps indef ph cfg).get_pwmValuesWithDistinctTarget (eraseRun c st r fan)
    = (.ok c.distinct.toArray, eraseRun c st r fan) := rfl
theorem run_attach (d) : (runInitOps indef ph cfg).fan_AttachFanRpmCurveData d (eraseRun c st r fan)
    = (.ok (match (fan.attach indef d).2 with | .ok () => none | .err e => some e | .panic p => some p),
       eraseRun c st r (fan.attach indef d).1) := rfl
theorem run_saveData : (runInitOps indef ph cfg).persistence_SaveFanPwmData (eraseRun c st r fan)
    = (.ok none, eraseRun c { st with rpm := curveOf cfg fan } r fan) := rfl

/-- the PWM map the controller has after `computePwmMapLocked` is key-sorted -/
theorem lockedD_sorted
    (hcfg : ∀ m, cfg.cfgMap = some m → SortedMap m)
    (hst : ∀ p, st.map = some p → SortedMap p.2)
    (hc : ∀ p, c.pwmMap = some p → SortedMap p.2) :
    ∀ p, (computePwmMapLockedD indef ph cfg fan c st r).2.1.pwmMap = some p → SortedMap p.2 := by
  intro p hp
  unfold computePwmMapLockedD at hp
  cases hm : cfg.cfgMap with
  | some m =>
    simp only [hm] at hp
    cases hp
    exact hcfg m hm
  | none =>
    simp only [hm] at hp
    cases hs : st.map with
    | some sm =>
      simp only [hs] at hp
      cases hp
      exact hst _ hs
    | none =>
      simp only [hs] at hp
      cases hcm : c.pwmMap with
      | some q =>
        simp only [hcm] at hp
        cases hp
        exact hc _ hcm
      | none =>
        simp only [hcm] at hp
        unfold computeAuto at hp
        cases hpr : cfg.pwmRead
        · have h : SortedMap (defaultPwmMap indef) := by
            rw [defaultPwmMap_eq]
            exact sweptMap_sorted _
          simp only [hpr, Bool.not_false, if_true, Option.some.injEq] at hp
          rw [← hp]
          dsimp only
          exact h
        · have h : ∀ r', SortedMap (sweep ph r').2 := by
            intro r'
            rw [sweep_map]
            exact sweptMap_sorted _
          simp only [hpr, Bool.not_true, Bool.false_eq_true, if_false, Option.some.injEq] at hp
          rw [← hp]
          dsimp only
          exact h _

/-- `RunInitializationSequence` = `runInitD`: same final controller fields, stored entries, registers and fan object; it
    returns nil exactly when the model's run is `ok`. Maps are key-sorted (as every map of the model is); the model's
    crash flag is never set on such runs (`Proofs/Analysis.lean`), it is a hypothesis here. -/
theorem trans3_init_RunInitializationSequence
    (hcfg : ∀ m, cfg.cfgMap = some m → SortedMap m)
    (hst : ∀ p, st.map = some p → SortedMap p.2)
    (hc : ∀ p, c.pwmMap = some p → SortedMap p.2)
    (hcrash : (runInitD indef ph cfg fan c st r).crash = none) :
    ∃ e : Option String,
      Generated3.init_RunInitializationSequence indef (runInitOps indef ph cfg) (eraseRun c st r fan)
        = (.ok e, eraseRun (runInitD indef ph cfg fan c st r).ctl (runInitD indef ph cfg fan c st r).store
                           (runInitD indef ph cfg fan c st r).regs (runInitD indef ph cfg fan c st r).fan)
      ∧ (e.isNone = (runInitD indef ph cfg fan c st r).ok) := by
  unfold Generated3.init_RunInitializationSequence
  have hlock := trans3_run_computePwmMapLocked indef ph cfg fan c st r
  have hsorted := lockedD_sorted indef ph cfg fan c st r hcfg hst hc
  generalize hL : computePwmMapLockedD indef ph cfg fan c st r = L at hlock hsorted
  obtain ⟨a1, c1, st1, r1⟩ := L
  simp only at hlock hsorted
  have hupd := trans3_run_updateDistinctPwmValues indef ph cfg fan c1 { st1 with map := c1.pwmMap } r1 hsorted
  simp only [run_bind, run_pure, run_ite, r_par, hlock, r_id, r_getMap, run_saveMap, hupd, r_supports1, ne_eq,
    not_true_eq_false, if_false, if_true, not_false_eq_true, ite_self]
  cases hr : cfg.hasRpm
  · refine ⟨none, ?_⟩
    simp [runInitD, hL, hr]
  · obtain ⟨e', fl, hloop⟩ := meas_loop indef ph cfg fan { st1 with map := c1.pwmMap } hr (updateDistinct c1).distinct
      (updateDistinct c1) (trySetManual ph cfg r1) [] none true
    simp only [run_bind, run_pure, run_ite, run_manual, run_getDistinct, List.forIn_toArray, hloop, ne_eq,
      not_true_eq_false, if_false, if_true, not_false_eq_true, ite_self]
    have hD := (rfl : runInitD indef ph cfg fan c st r = runInitD indef ph cfg fan c st r)
    conv at hD =>
      rhs
      unfold runInitD
      rw [hL]
    simp only [hr, Bool.not_true, Bool.false_eq_true, if_false] at hD
    generalize hmo : measureLoop ph cfg fan (updateDistinct c1).distinct (updateDistinct c1) (trySetManual ph cfg r1) [] = mo at hD ⊢
    obtain ⟨mc, mr, md, mres⟩ := mo
    simp only at hD ⊢
    cases mres with
    | ok u =>
      cases u
      simp only [run_bind, run_pure, run_ite, run_attach] at hD ⊢
      generalize hat : FanSt.attach indef fan (some md) = at' at hD ⊢
      obtain ⟨fan', ares⟩ := at'
      cases ares with
      | ok u =>
        cases u
        refine ⟨none, ?_⟩
        simp only [hD, run_saveData, not_true_eq_false, if_false, Option.isNone_none, and_self]
      | err e =>
        refine ⟨some e, ?_⟩
        simp [hD]
      | panic p =>
        refine ⟨some p, ?_⟩
        simp [hD]
    | err e =>
      refine ⟨some e, ?_⟩
      simp [hD, run_pure]
    | panic p =>
      rw [hD] at hcrash
      simp at hcrash

end Fan2go

#print axioms Fan2go.trans3_init_RunInitializationSequence
