/-
  Translation tie, third generation: `util.ReadIntFromFile`, `util.WriteIntToFile`, `util.WriteIntToFileAtomic`,
  `util.resolvePath` — regenerated from internal/util/file.go on every run — against the specification-level model of
  Model/FileIO.lean. Core Lean only.
-/
import Fan2go.Generated.Trans3
import Fan2go.Model.FileIO
namespace Fan2go
set_option linter.unusedSimpArgs false

/-- the operations of file.go over the model file system -/
def fileIoOps (trim : String → String) (atoi : String → Int × Option String) : Generated3.FileIoOps FS where
  readFile := fun p fs => (.ok (match fs.content p with | some c => (c, none) | none => ("", some "read")), fs)
  trimSpace := fun s fs => (.ok (trim s), fs)
  atoi := fun s fs => (.ok (atoi s), fs)
  evalSymlinks := fun p fs => (.ok (match fs.resolve p with | some r => (r, none) | none => ("", some "resolve")), fs)
  writeFile := fun p s _ fs => (.ok (fs.write p s).2, (fs.write p s).1)
  atomicWriteFile := fun p s fs => (.ok (fs.write p s).2, (fs.write p s).1)

variable (indef : Int) (trim : String → String) (atoi : String → Int × Option String) (fs : FS)

theorem trans3_util_ReadIntFromFile (path : String) :
    Generated3.util_ReadIntFromFile indef (fileIoOps trim atoi) path fs = (.ok (readIntSpec trim atoi fs path), fs) := by
  unfold Generated3.util_ReadIntFromFile readIntSpec
  cases h : fs.content path with
  | none => simp [fileIoOps, h, bind, GoM.bind', GoM.pure', pure]
  | some c =>
    by_cases hl : Go.lenS c ≤ 0 <;>
      simp [fileIoOps, h, hl, bind, GoM.bind', GoM.pure', pure]

theorem lenS_empty_str : ¬ (Go.lenS "" > 0) := by decide

/-- a write goes to the path `EvalSymlinks` gives AT THAT WRITE (to the path as given when it cannot be resolved), and what
    is written is the decimal text of the value -/
theorem trans3_util_WriteIntToFile (value : Int) (path : String) :
    Generated3.util_WriteIntToFile indef (fileIoOps trim atoi) value path fs
      = (.ok (writeIntSpec fs value path).2, (writeIntSpec fs value path).1) := by
  unfold Generated3.util_WriteIntToFile Generated3.util_resolvePath writeIntSpec writeTarget
  cases h : fs.resolve path with
  | none => simp [fileIoOps, h, bind, GoM.bind', GoM.pure', pure, lenS_empty_str]
  | some r =>
    by_cases hl : Go.lenS r > 0 <;>
      simp [fileIoOps, h, hl, bind, GoM.bind', GoM.pure', pure]

theorem trans3_util_WriteIntToFileAtomic (value : Int) (path : String) :
    Generated3.util_WriteIntToFileAtomic indef (fileIoOps trim atoi) value path fs
      = (.ok (writeIntSpec fs value path).2, (writeIntSpec fs value path).1) := by
  unfold Generated3.util_WriteIntToFileAtomic Generated3.util_resolvePath writeIntSpec writeTarget
  cases h : fs.resolve path with
  | none => simp [fileIoOps, h, bind, GoM.bind', GoM.pure', pure, lenS_empty_str]
  | some r =>
    by_cases hl : Go.lenS r > 0 <;>
      simp [fileIoOps, h, hl, bind, GoM.bind', GoM.pure', pure]

/-- consequence: after the configured path has been re-pointed, the next write reaches the NEW target (C05: the device
    the path leads to now) -/
theorem trans3_write_follows_repoint (value : Int) (path newTarget : String) (h : fs.resolve path = some newTarget)
    (hl : Go.lenS newTarget > 0) (hw : fs.readOnly newTarget = false) :
    ((Generated3.util_WriteIntToFile indef (fileIoOps trim atoi) value path fs).2).content newTarget = some (Go.itoa value) := by
  rw [trans3_util_WriteIntToFile]
  simp [writeIntSpec, writeTarget, h, hl, FS.write, hw]

end Fan2go

#print axioms Fan2go.trans3_util_ReadIntFromFile
#print axioms Fan2go.trans3_util_WriteIntToFile
#print axioms Fan2go.trans3_util_WriteIntToFileAtomic
#print axioms Fan2go.trans3_write_follows_repoint
