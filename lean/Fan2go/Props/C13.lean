/-
  C13  Measured fan limits follow the RPM curve; configured limits always win
       (internal/fans/common.go `ComputePwmBoundaries`, internal/fans/hwmon.go setters and
        `AttachFanRpmCurveData`; model: Model/Fan.lean)

  All theorems hold for every value `indef` of the implementation-defined result of `int(x)` for
  NaN / ±Inf / out-of-range `x`; "RPM in whole RPM" is `rpmOf indef p = toInt indef p.2`.

  Curve data are lists of (pwm, rpm) pairs sorted by key – the Go code iterates over
  `sort.Ints(keys)` of a map, so keys are distinct and increasing (`KeysSorted`). PWM keys are ≤ 255
  (`CurveData.le255`; with a key > 255 the code's initial candidate 255 would win instead).

  RESULT: the derivation of start/max from ONE attachment to a fresh fan, the refusal of empty data
  and "configured limits always win" are PROVED. The clause "repeated attachment of different data to
  the same fan" is REFUTED (`C13_reattach_refuted`): the second attachment keeps the start PWM
  measured by the first one, because `ComputePwmBoundaries` reads `fan.GetStartPwm()` – by then the
  previously MEASURED value – as if it were the user's override. `C13_reattach_exact` says exactly
  what the code does instead.
-/
import Fan2go.Proofs.FanLimits
namespace Fan2go
open F64

/-- well-formed measured curve: non-empty, keys strictly increasing, PWM keys at most 255. -/
structure CurveData (d : List (Int × F64)) : Prop where
  ne : d ≠ []
  sorted : KeysSorted d
  le255 : ∀ p ∈ d, p.1 ≤ 255

/-- a freshly constructed hwmon fan (`fans.NewFan`). -/
abbrev freshHwmon (ns : Bool) (cfgMin cfgStart cfgMax : Option Int) : FanSt :=
  FanSt.new .hwmon ns cfgMin cfgStart cfgMax

/-! ### what the specification functions mean (they are NOT copies of the loop) -/

/-- `specStart` is the lowest key with non-zero whole RPM … -/
theorem C13_specStart_lowest (indef : Int) {d : List (Int × F64)} (hs : KeysSorted d)
    (h : ∃ p ∈ d, 0 < rpmOf indef p) :
    ∃ p ∈ d, p.1 = specStart indef d ∧ 0 < rpmOf indef p ∧
      ∀ q ∈ d, 0 < rpmOf indef q → specStart indef d ≤ q.1 :=
  specStart_lowest indef hs h

/-- … and 255 when no measured point rotates. -/
theorem C13_specStart_none (indef : Int) (d : List (Int × F64)) (h : ∀ p ∈ d, rpmOf indef p ≤ 0) :
    specStart indef d = 255 := specStart_none indef d h

/-- `specMax` is a key at which the highest whole RPM is reached, and the lowest such key … -/
theorem C13_specMax_lowest (indef : Int) {d : List (Int × F64)} (hs : KeysSorted d)
    (h : ∃ p ∈ d, 0 < rpmOf indef p) :
    ∃ p ∈ d, p.1 = specMax indef d ∧ (∀ q ∈ d, rpmOf indef q ≤ rpmOf indef p) ∧
      ∀ q ∈ d, (∀ r ∈ d, rpmOf indef r ≤ rpmOf indef q) → specMax indef d ≤ q.1 :=
  specMax_lowest indef hs h

/-- … and 255 when no measured point rotates. -/
theorem C13_specMax_none (indef : Int) (d : List (Int × F64)) (h : ∀ p ∈ d, rpmOf indef p ≤ 0) :
    specMax indef d = 255 := specMax_none indef d h

/-! ### one attachment to a fresh fan -/

theorem C13_attach_ok (indef : Int) (ns : Bool) (cfgMin cfgStart cfgMax : Option Int)
    {d : List (Int × F64)} (hd : CurveData d) :
    ((freshHwmon ns cfgMin cfgStart cfgMax).attach indef (some d)).2 = .ok () := by
  rw [attach_hwmon_ne indef _ rfl d hd.ne]

/-- start PWM: the configured value if there is one, else the lowest measured PWM with non-zero RPM
    (255 if there is none). -/
theorem C13_start (indef : Int) (ns : Bool) (cfgMin cfgStart cfgMax : Option Int)
    {d : List (Int × F64)} (hd : CurveData d) :
    ((freshHwmon ns cfgMin cfgStart cfgMax).attach indef (some d)).1.getStart
      = cfgStart.getD (specStart indef d) := by
  rw [attach_hwmon_ne indef _ rfl d hd.ne, attachOk_getStart indef _ rfl,
    computePwmBoundaries_spec indef _ d hd.sorted hd.le255]
  cases cfgStart with
  | none => simp [FanSt.new, FanSt.getStart]
  | some v => simp [FanSt.new, FanSt.getStart]

/-- max PWM: the configured value if there is one, else the lowest measured PWM at which the highest
    whole RPM is reached (255 if nothing rotates). -/
theorem C13_max (indef : Int) (ns : Bool) (cfgMin cfgStart cfgMax : Option Int)
    {d : List (Int × F64)} (hd : CurveData d) :
    ((freshHwmon ns cfgMin cfgStart cfgMax).attach indef (some d)).1.getMax
      = cfgMax.getD (specMax indef d) := by
  rw [attach_hwmon_ne indef _ rfl d hd.ne, attachOk_getMax indef _ rfl,
    computePwmBoundaries_spec indef _ d hd.sorted hd.le255]
  cases cfgMax with
  | none => simp [FanSt.new]
  | some v => simp [FanSt.new, FanSt.getMax]

/-- min PWM after the attachment: 0 without `neverStop`; with it, the configured minimum, else the
    start PWM the attachment computed (a configured start PWM below 255, else the measured one –
    note that a configured `startPwm: 255` does not count as configured here). -/
theorem C13_min (indef : Int) (ns : Bool) (cfgMin cfgStart cfgMax : Option Int)
    {d : List (Int × F64)} (hd : CurveData d) :
    ((freshHwmon ns cfgMin cfgStart cfgMax).attach indef (some d)).1.getMin
      = if ns then
          cfgMin.getD (if cfgStart.getD 255 < 255 then cfgStart.getD 255 else specStart indef d)
        else 0 := by
  rw [attach_hwmon_ne indef _ rfl d hd.ne, attachOk_getMin indef _ rfl,
    computePwmBoundaries_spec indef _ d hd.sorted hd.le255]
  cases ns <;> cases cfgMin <;> cases cfgStart <;> simp [FanSt.new, FanSt.getStart]

-- non-vacuity: a plateau curve, nothing configured: start = 20 (first rotation), max = 60 (first of
-- the plateau), for every `indef`.
example (indef : Int) :
    let d : List (Int × F64) := [(10, fin 0), (20, fin 300), (60, fin 900), (80, fin 900)]
    CurveData d ∧ specStart indef d = 20 ∧ specMax indef d = 60 := by
  have t0 : toInt indef (fin 0) = 0 := by
    have := b_toInt_int indef (n := 0) (by norm_num) (by norm_num); simpa using this
  have t3 : toInt indef (fin 300) = 300 := by
    have := b_toInt_int indef (n := 300) (by norm_num) (by norm_num); simpa using this
  have t9 : toInt indef (fin 900) = 900 := by
    have := b_toInt_int indef (n := 900) (by norm_num) (by norm_num); simpa using this
  refine ⟨⟨by simp, by simp [KeysSorted], by simp⟩, ?_, ?_⟩
  · simp [specStart, rpmOf, t0, t3]
  · simp [specMax, specMaxRpm, rpmOf, t0, t3, t9]

/-! ### no measurements: refuse -/

/-- empty data and a nil pointer are refused and leave the fan exactly as it was (any hwmon state). -/
theorem C13_refuses_empty (indef : Int) (f : FanSt) (hk : f.kind = .hwmon) :
    f.attach indef (some []) = (f, .err "invalid") ∧ f.attach indef none = (f, .err "invalid") :=
  attach_hwmon_empty indef f hk

example (indef : Int) : ((freshHwmon true none none none).attach indef (some [])).2 = .err "invalid" :=
  by rw [(C13_refuses_empty indef _ rfl).1]

/-! ### configured limits always win -/

/-- For ANY sequence of attachments (valid, empty or nil) and non-forced setter calls on a fan
    constructed from a configuration: a configured start / max PWM is the effective one, and with
    `neverStop` so is a configured min PWM. -/
theorem C13_config_wins (indef : Int) (ns : Bool) (cfgMin cfgStart cfgMax : Option Int)
    (ops : List LimOp) :
    let f := runLimOps indef (freshHwmon ns cfgMin cfgStart cfgMax) ops
    (∀ v, cfgStart = some v → f.getStart = v) ∧ (∀ v, cfgMax = some v → f.getMax = v) ∧
    (∀ v, cfgMin = some v → ns = true → f.getMin = v) := by
  intro f
  have h : CfgKept (freshHwmon ns cfgMin cfgStart cfgMax) f := cfgKept_run indef (cfgKept_new ..) ops
  have hk : f.kind = .hwmon := h.kind
  have hn : f.neverStop = ns := h.ns
  refine ⟨fun v hv => ?_, fun v hv => ?_, fun v hv hns => ?_⟩
  · have := h.wstart v hv; simp [FanSt.getStart, hk, this]
  · have := h.wmax v hv; simp [FanSt.getMax, hk, this]
  · have := h.wmin v hv; simp [FanSt.getMin, hk, this, hn, hns]

example (indef : Int) :
    (runLimOps indef (freshHwmon true (some 30) (some 40) (some 200))
      [.attach (some [(10, fin 0), (20, fin 300)]), .setMin 1, .setStart 2, .setMax 3]).getMax = 200 :=
  (C13_config_wins indef true (some 30) (some 40) (some 200) _).2.1 200 rfl

/-- A fan without `neverStop` has minimum 0 – in every state of every kind. -/
theorem C13_min_zero (f : FanSt) (h : f.neverStop = false) : f.getMin = 0 := by
  unfold FanSt.getMin; cases f.kind <;> simp [h]

/-- … in particular after any operation sequence. -/
theorem C13_min_zero_run (indef : Int) (kind : FanKind) (cfgMin cfgStart cfgMax : Option Int)
    (ops : List LimOp) :
    (runLimOps indef (FanSt.new kind false cfgMin cfgStart cfgMax) ops).getMin = 0 :=
  C13_min_zero _ (cfgKept_run indef (cfgKept_new ..) ops).ns

/-- File and cmd fans: constant limits 0 / 1 / 255 in every state; attaching data is ignored. -/
theorem C13_file_cmd_constants (indef : Int) (f : FanSt) (hk : f.kind ≠ .hwmon)
    (d : Option (List (Int × F64))) :
    f.getMin = 0 ∧ f.getStart = 1 ∧ f.getMax = 255 ∧ f.attach indef d = (f, .ok ()) := by
  refine ⟨?_, ?_, ?_, attach_other indef f hk d⟩
  · unfold FanSt.getMin; cases h : f.kind <;> simp_all
  · unfold FanSt.getStart; cases h : f.kind <;> simp_all
  · unfold FanSt.getMax; cases h : f.kind <;> simp_all

/-! ### attachment in an arbitrary state, and re-attachment -/

/-- What one attachment does to the start / max PWM of a hwmon fan in ANY state: an unconfigured max
    follows the new data, but an unconfigured start only does if the previous start was 255. -/
theorem C13_attach_any_state (indef : Int) (f : FanSt) (hk : f.kind = .hwmon)
    {d : List (Int × F64)} (hd : CurveData d) :
    (f.attach indef (some d)).1.getStart =
      (if f.cfgStart.isNone then (if f.getStart < 255 then f.getStart else specStart indef d)
       else f.getStart) ∧
    (f.attach indef (some d)).1.getMax =
      (if f.cfgMax.isNone then specMax indef d else f.getMax) := by
  rw [attach_hwmon_ne indef _ hk d hd.ne, attachOk_getStart indef _ hk, attachOk_getMax indef _ hk,
    computePwmBoundaries_spec indef _ d hd.sorted hd.le255]
  exact ⟨rfl, rfl⟩

/-- the fan after attaching `d1` and then `d2`. -/
def reattached (indef : Int) (f : FanSt) (d1 d2 : List (Int × F64)) : FanSt :=
  ((f.attach indef (some d1)).1.attach indef (some d2)).1

/-- The property's claim for repeated attachment: unconfigured limits follow the LAST data. -/
def C13_reattach_statement : Prop :=
  ∀ (indef : Int) (ns : Bool) (cfgMin : Option Int) (d1 d2 : List (Int × F64)),
    CurveData d1 → CurveData d2 →
    (reattached indef (freshHwmon ns cfgMin none none) d1 d2).getStart = specStart indef d2 ∧
    (reattached indef (freshHwmon ns cfgMin none none) d1 d2).getMax = specMax indef d2

/-- exactly what the code does on re-attachment (no configured start / max). -/
theorem C13_reattach_exact (indef : Int) (ns : Bool) (cfgMin : Option Int)
    {d1 d2 : List (Int × F64)} (h1 : CurveData d1) (h2 : CurveData d2) :
    (reattached indef (freshHwmon ns cfgMin none none) d1 d2).getStart =
      (if specStart indef d1 < 255 then specStart indef d1 else specStart indef d2) ∧
    (reattached indef (freshHwmon ns cfgMin none none) d1 d2).getMax = specMax indef d2 := by
  have hs := C13_start indef ns cfgMin none none h1
  have e1 := attach_hwmon_ne indef (freshHwmon ns cfgMin none none) rfl d1 h1.ne
  obtain ⟨ck, cs, cm, _, _⟩ := attachOk_cfg indef (freshHwmon ns cfgMin none none) d1
  unfold reattached
  rw [e1] at hs ⊢
  obtain ⟨a, b⟩ := C13_attach_any_state indef _ ck h2
  rw [a, b, cs, cm, hs]
  exact ⟨rfl, rfl⟩

/-- the max-PWM half of the claim is true … -/
theorem C13_reattach_max (indef : Int) (ns : Bool) (cfgMin : Option Int)
    {d1 d2 : List (Int × F64)} (h1 : CurveData d1) (h2 : CurveData d2) :
    (reattached indef (freshHwmon ns cfgMin none none) d1 d2).getMax = specMax indef d2 :=
  (C13_reattach_exact indef ns cfgMin h1 h2).2

/-- … and the start-PWM half holds when the first attachment measured no rotation below 255. -/
theorem C13_reattach_partial (indef : Int) (ns : Bool) (cfgMin : Option Int)
    {d1 d2 : List (Int × F64)} (h1 : CurveData d1) (h2 : CurveData d2)
    (hno : specStart indef d1 = 255) :
    (reattached indef (freshHwmon ns cfgMin none none) d1 d2).getStart = specStart indef d2 := by
  rw [(C13_reattach_exact indef ns cfgMin h1 h2).1, hno]; simp

/-- with a configured start PWM re-attachment is harmless (instance of `C13_config_wins`). -/
theorem C13_reattach_configured (indef : Int) (ns : Bool) (cfgMin cfgMax : Option Int) (v : Int)
    (d1 d2 : List (Int × F64)) :
    (reattached indef (freshHwmon ns cfgMin (some v) cfgMax) d1 d2).getStart = v :=
  (C13_config_wins indef ns cfgMin (some v) cfgMax [.attach (some d1), .attach (some d2)]).1 v rfl

/-- witness: first measurement {10 ↦ 0, 20 ↦ 500}, second {10 ↦ 0, 20 ↦ 0, 40 ↦ 500}. -/
def c13_d1 : List (Int × F64) := [(10, fin 0), (20, fin 500)]
def c13_d2 : List (Int × F64) := [(10, fin 0), (20, fin 0), (40, fin 500)]

/-- The start PWM stays 20 although the fan now needs 40 to start (for every `indef`). -/
theorem C13_reattach_witness (indef : Int) :
    CurveData c13_d1 ∧ CurveData c13_d2 ∧ specStart indef c13_d2 = 40 ∧
    (reattached indef (freshHwmon false none none none) c13_d1 c13_d2).getStart = 20 := by
  have t0 : toInt indef (fin 0) = 0 := by
    have := b_toInt_int indef (n := 0) (by norm_num) (by norm_num); simpa using this
  have t5 : toInt indef (fin 500) = 500 := by
    have := b_toInt_int indef (n := 500) (by norm_num) (by norm_num); simpa using this
  have c1 : CurveData c13_d1 := ⟨by simp [c13_d1], by simp [KeysSorted, c13_d1], by simp [c13_d1]⟩
  have c2 : CurveData c13_d2 := ⟨by simp [c13_d2], by simp [KeysSorted, c13_d2], by simp [c13_d2]⟩
  have s1 : specStart indef c13_d1 = 20 := by simp [specStart, rpmOf, c13_d1, t0, t5]
  have s2 : specStart indef c13_d2 = 40 := by simp [specStart, rpmOf, c13_d2, t0, t5]
  refine ⟨c1, c2, s2, ?_⟩
  rw [(C13_reattach_exact indef false none c1 c2).1, s1]; simp

theorem C13_reattach_refuted : ¬ C13_reattach_statement := by
  intro h
  obtain ⟨c1, c2, s2, w⟩ := C13_reattach_witness 0
  have := (h 0 false none c13_d1 c13_d2 c1 c2).1
  rw [w, s2] at this
  omega

end Fan2go

#print axioms Fan2go.C13_specStart_lowest
#print axioms Fan2go.C13_specStart_none
#print axioms Fan2go.C13_specMax_lowest
#print axioms Fan2go.C13_specMax_none
#print axioms Fan2go.C13_attach_ok
#print axioms Fan2go.C13_start
#print axioms Fan2go.C13_max
#print axioms Fan2go.C13_min
#print axioms Fan2go.C13_refuses_empty
#print axioms Fan2go.C13_config_wins
#print axioms Fan2go.C13_min_zero
#print axioms Fan2go.C13_min_zero_run
#print axioms Fan2go.C13_file_cmd_constants
#print axioms Fan2go.C13_attach_any_state
#print axioms Fan2go.C13_reattach_exact
#print axioms Fan2go.C13_reattach_max
#print axioms Fan2go.C13_reattach_partial
#print axioms Fan2go.C13_reattach_configured
#print axioms Fan2go.C13_reattach_witness
#print axioms Fan2go.C13_reattach_refuted
