/-
  C01 — Every PWM value written while regulating stays inside the fan's limits.

  For ALL `indef` (Go's implementation-defined `int(NaN)`), ALL control loops (`LoopSt.cycle` may
  return any `Int`; only the controller's clamp and rescale are used), ALL worlds satisfying `Inv`,
  ALL curve outcomes (values, errors, panics) and ALL finite event sequences.
-/
import Fan2go.Proofs.ControllerInv
import Fan2go.Proofs.LoopRange
namespace Fan2go
open F64

/-! ### a concrete world for the non-vacuity examples:
    a neverStop hwmon fan with min 30, max 200 and a sparse user PWM map -/

def exMap : List (Int × Int) := [(0, 0), (50, 48), (100, 100), (255, 255)]

def exWorld : World :=
  { fan := FanSt.new .hwmon true (some 30) none (some 200)
    dev := { hasRpm := false }
    ctl := { pwmMap := some exMap, distinct := (extractKeys exMap).toArray }
    rpmWindow := 10 }

theorem exMap_ok : MapOk exMap := by
  refine ⟨by decide, by decide, ?_⟩
  intro p hp
  simp only [exMap, List.mem_cons, List.not_mem_nil, or_false] at hp
  rcases hp with rfl | rfl | rfl | rfl <;> decide

theorem exWorld_inv : Inv exWorld where
  min_nonneg := by decide
  offset_nonneg := by decide
  floor_le_max := by decide
  max_le := by decide
  map_some := ⟨exMap, rfl, exMap_ok, rfl⟩

/-! ### the request -/

/-- the fan's own minimum is 0 unless the fan is a neverStop hwmon fan -/
theorem C01_getMin_zero_of_not_neverStop (f : FanSt) (h : f.neverStop = false) : f.getMin = 0 :=
  getMin_zero_of_not_neverStop f h

/-- The value `calculateTargetPwm` returns lies between the effective floor (fan minimum plus raises,
    before and after this cycle) and the fan's maximum. -/
theorem C01_requested_in_limits (indef : Int) (w w' : World) (curve : Res Int) (now t : Int)
    (obs : List Obs) (hinv : Inv w)
    (h : calculateTargetPwm indef w curve now = (w', .ok t, obs)) :
    w.floor ≤ t ∧ t ≤ w.fan.getMax ∧ w'.floor ≤ t :=
  (calcTarget_cases' h).range hinv

/-- in particular it lies inside the fan's limits and inside 0..255 -/
theorem C01_requested_ge_min (indef : Int) (w w' : World) (curve : Res Int) (now t : Int)
    (obs : List Obs) (hinv : Inv w)
    (h : calculateTargetPwm indef w curve now = (w', .ok t, obs)) :
    w.fan.getMin ≤ t ∧ t ≤ w.fan.getMax ∧ 0 ≤ t ∧ t ≤ 255 := by
  obtain ⟨h1, h2, -⟩ := C01_requested_in_limits indef w w' curve now t obs hinv h
  have := hinv.min_le_floor; have := hinv.min_nonneg; have := hinv.max_le
  omega

example (indef : Int) : ∃ w' t obs, calculateTargetPwm indef exWorld (.ok 100) 0 = (w', .ok t, obs) := by
  obtain ⟨wm, obs0, -, -, h⟩ := calc_forward exWorld_inv indef 100 0 0 rfl
  have hs : stalled indef exWorld (computedTarget indef exWorld 100 0 0) = false := rfl
  rw [hs] at h
  exact ⟨_, _, _, h⟩

/-! ### the invariant -/

/-- `Inv` survives every event: a cycle with ANY curve outcome (value, error, panic), an RPM poll,
    any change of the device by the environment. -/
theorem C01_inv_step (indef : Int) (w : World) (e : Ev) (hinv : Inv w) : Inv (stepEv indef w e).w :=
  (step_cases indef w e).inv hinv

example : Inv (stepEv 0 exWorld (.cycle (.panic "curve") 5)).w := C01_inv_step 0 exWorld _ exWorld_inv

/-- `Inv` holds in the final world of every run and in every pre-state of its trace. -/
theorem C01_inv_run (indef : Int) (w : World) (es : List Ev) (hinv : Inv w) :
    Inv (runFinal indef w es) ∧ ∀ x ∈ runEvs indef w es, Inv x.1 :=
  ⟨run_final_inv indef es w hinv, fun x hx => (run_pre_inv indef es w hinv x hx).1⟩

example : Inv (runFinal 0 exWorld [.poll, .cycle (.ok 300) 1, .env {}, .cycle (.err "x") 2]) :=
  (C01_inv_run 0 exWorld _ exWorld_inv).1

/-! ### the value written -/

/-- Whatever one cycle writes to the PWM control is the PWM-map output of a supported input picked by
    `findClosestDistinctTarget` for the request of this very cycle, and a byte. -/
theorem C01_written_is_map_of_request (indef : Int) (w : World) (curve : Res Int) (now : Int)
    (out : StepOut) (hinv : Inv w) (hstep : stepEv indef w (.cycle curve now) = out) :
    ∀ v ok, Obs.wrotePwm v ok ∈ out.obs →
      ∃ t k m, Obs.requested t ∈ out.obs ∧ w.ctl.pwmMap = some m ∧ closestDistinct w.ctl t = .ok k ∧
        (∃ i, i < w.ctl.distinct.size ∧ w.ctl.distinct[i]! = k) ∧ v = mapGet m k ∧ 0 ≤ v ∧ v ≤ 255 := by
  intro v ok hv
  subst hstep
  exact (step_cases indef w _).wrote hinv hv

/-- `exWorld` with an unreadable PWM register: every successful cycle writes -/
def exBlind : World := { exWorld with dev := { hasRpm := false, pwmRead := .errPerm } }

theorem exBlind_inv : Inv exBlind where
  min_nonneg := by decide
  offset_nonneg := by decide
  floor_le_max := by decide
  max_le := by decide
  map_some := ⟨exMap, rfl, exMap_ok, rfl⟩

/-- non-vacuity: a write is observed -/
example (indef : Int) : ∃ v ok, Obs.wrotePwm v ok ∈ (stepEv indef exBlind (.cycle (.ok 77) 0)).obs := by
  obtain ⟨wm, obs0, -, -, h⟩ := calc_forward exBlind_inv indef 77 0 30 rfl
  have hs : stalled indef exBlind (computedTarget indef exBlind 77 30 0) = false := rfl
  rw [hs] at h
  exact step_writes_blind exBlind_inv (by decide) (by decide) h

/-- Along every run from an `Inv` world: every written value is a byte, and every requested value lies
    inside the limits of the fan in the state in which it was requested. -/
theorem C01_run (indef : Int) (w0 : World) (es : List Ev) (hinv : Inv w0) :
    ∀ x ∈ runEvs indef w0 es,
      (∀ v ok, Obs.wrotePwm v ok ∈ x.2.2.obs → 0 ≤ v ∧ v ≤ 255) ∧
      (∀ t, Obs.requested t ∈ x.2.2.obs → x.1.fan.getMin ≤ t ∧ t ≤ x.1.fan.getMax) := by
  intro x hx
  obtain ⟨hi, hstep⟩ := run_pre_inv indef es w0 hinv x hx
  have hc := step_cases indef x.1 x.2.1
  rw [← hstep] at hc
  constructor
  · intro v ok hv
    obtain ⟨t, k, m, -, -, -, -, -, h0, h1⟩ := hc.wrote hi hv
    exact ⟨h0, h1⟩
  · intro t ht
    obtain ⟨h0, h1, -⟩ := hc.requested hi ht
    exact ⟨le_trans hi.min_le_floor h0, h1⟩

example : (exWorld, Ev.cycle (.ok 77) 0, stepEv 0 exWorld (.cycle (.ok 77) 0)) ∈
    runEvs 0 exWorld [.cycle (.ok 77) 0, .poll] := by
  rw [runEvs_cons]; exact List.mem_cons_self

/-! ### the control loops -/

/-- Both control loops return a byte or Go's `int(NaN)`; the direct loop returns a byte whenever its
    `current` argument is an exactly representable integer (every 64-bit `lastSetPwm` below 2^53 is),
    and passes a byte target through unchanged when no rate limit is configured. The PID loop CAN
    return `int(NaN)` (`pidCycle_nan_witness`) – on amd64 `-2^63` – and then only the controller's
    own clamp (controller.go:445-452, `clamp255`) keeps the request inside the limits; that clamp is
    what `C01_requested_in_limits` relies on, not the loops. -/
theorem C01_loops_total (indef : Int) :
    (∀ l target current now,
      (0 ≤ (LoopSt.cycle indef l target current now).2 ∧ (LoopSt.cycle indef l target current now).2 ≤ 255) ∨
        (LoopSt.cycle indef l target current now).2 = indef) ∧
    (∀ m target current, |current| ≤ 2 ^ 53 →
      0 ≤ directCycle indef m target current ∧ directCycle indef m target current ≤ 255) ∧
    (∀ target current, 0 ≤ target → target ≤ 255 → directCycle indef none target current = target) ∧
    (∃ st target current now, (pidCycle indef st target current now).2 = indef) :=
  ⟨loopCycle_range indef, fun m t c => directCycle_range_of_current indef m t c,
    fun t c => directCycle_none_byte indef t c, ⟨_, _, _, _, pidCycle_nan_witness indef⟩⟩

end Fan2go

#print axioms Fan2go.C01_getMin_zero_of_not_neverStop
#print axioms Fan2go.C01_requested_in_limits
#print axioms Fan2go.C01_requested_ge_min
#print axioms Fan2go.C01_inv_step
#print axioms Fan2go.C01_inv_run
#print axioms Fan2go.C01_written_is_map_of_request
#print axioms Fan2go.C01_run
#print axioms Fan2go.C01_loops_total
