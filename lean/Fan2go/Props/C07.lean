/-
  C07 — "Hotter never means slower".

  Statements about the MODEL (`Model/Curves.lean`, `Model/Util.lean`, `Model/ControlLoop.lean`,
  `Model/Controller.lean`); proofs in `Fan2go/Proofs/{F64Ops,Linear,Interp,FnCurves,RescaleMono}.lean`.
  Every theorem holds for ALL values `indef` of the implementation-defined `int(NaN)`.

  Outcome:
  * min/max form: PROVED monotone for every pair of non-NaN averages and ANY 64-bit `min`, `max`.
  * steps form: PROVED monotone when every configured speed is a binary32 value (all integers and
    all multiples of 2^-15 in 0..255 are); REFUTED in full generality (`C07_steps_refuted`): the
    `float64(float32(·))` cast inside a segment can lift a value above the next knot, which is
    returned uncast — finding, see `C07_steps_witness`.
  * `sum`, `maximum`, `minimum`, `average` preserve monotonicity; `difference` and `delta` do not.
  * requested PWM (direct loop without change limit, `rescale`) is monotone in the curve value.
-/
import Fan2go.Proofs.Linear
import Fan2go.Proofs.Interp
import Fan2go.Proofs.FnCurves
import Fan2go.Proofs.RescaleMono
import Fan2go.Proofs.CurveTree

namespace Fan2go
open F64

/-! ## 1. linear curve, min/max form -/

/-- finite averages `a ≤ b`; any 64-bit `min`, `max` (also `min ≥ max`). -/
theorem C07_linear_mono (indef : Int) {a b : ℚ} (hab : a ≤ b) {mn mx : Int}
    (hmn : |mn| ≤ 2 ^ 63) (hmx : |mx| ≤ 2 ^ 63) :
    linMinMax indef (fin a) mn mx ≤ linMinMax indef (fin b) mn mx :=
  linMinMax_mono indef hab hmn hmx

/-- the same for all non-NaN averages (Go `<=`), `±Inf` included. -/
theorem C07_linear_mono_ext (indef : Int) {x y : F64} (h : le x y = true) {mn mx : Int}
    (hmn : |mn| ≤ 2 ^ 63) (hmx : |mx| ≤ 2 ^ 63) :
    linMinMax indef x mn mx ≤ linMinMax indef y mn mx :=
  linMinMax_mono' indef h hmn hmx

example : linMinMax (-2 ^ 63) (fin 45000) 40 60 ≤ linMinMax (-2 ^ 63) (fin 45001) 40 60 :=
  C07_linear_mono _ (by norm_num) (by norm_num) (by norm_num)
example : linMinMax (-2 ^ 63) (fin 45000) 40 60 = 63 ∧ linMinMax (-2 ^ 63) (fin 47000) 40 60 = 89 := by
  constructor <;> decide +kernel

/-! ## 2. linear curve, steps form -/

/-- Non-empty steps, keys strictly increasing (`|key| ≤ 2^50`), speeds finite binary64 values in
    `[0,255]`, non-decreasing along the keys, each representable in binary32. Then the curve value
    is non-decreasing in the average, over all non-NaN averages. -/
theorem C07_steps_mono (indef : Int) {ks : List (Int × ℚ)} (hne : ks ≠ [])
    (hb : ∀ p ∈ ks, |p.1| ≤ 2 ^ 50 ∧ Rep64 p.2 ∧ 0 ≤ p.2 ∧ p.2 ≤ 255)
    (hkeys : ks.Pairwise (fun a b => a.1 < b.1))
    (hmono : ks.Pairwise (fun a b => a.2 ≤ b.2))
    (hrep32 : ∀ p ∈ ks, Rep32 p.2)
    {a b : F64} (hab : le a b = true) :
    ∃ v w, linSteps indef a (toSteps ks) = .ok v ∧ linSteps indef b (toSteps ks) = .ok w ∧ v ≤ w := by
  have hok := stepsOK_of hb hkeys
  have hm : StepsMono ks := ⟨hmono, hrep32⟩
  match ks, hne, hok, hm with
  | (x, y) :: rest, _, hok, hm => exact linSteps_mono indef x y rest hok hm hab

/-- the underlying statement about `util.CalculateInterpolatedCurveValue` itself. -/
theorem C07_interp_mono {x : Int} {y : ℚ} {rest : List (Int × ℚ)}
    (hb : ∀ p ∈ (x, y) :: rest, |p.1| ≤ 2 ^ 50 ∧ Rep64 p.2 ∧ 0 ≤ p.2 ∧ p.2 ≤ 255)
    (hkeys : ((x, y) :: rest).Pairwise (fun a b => a.1 < b.1))
    (hmono : ((x, y) :: rest).Pairwise (fun a b => a.2 ≤ b.2))
    (hrep32 : ∀ p ∈ (x, y) :: rest, Rep32 p.2)
    {t t' : F64} (h : le t t' = true) :
    ∃ z z', interp (toSteps ((x, y) :: rest)) t = .ok (fin z) ∧
      interp (toSteps ((x, y) :: rest)) t' = .ok (fin z') ∧ z ≤ z' := by
  obtain ⟨z, z', h1, h2, h3⟩ := interpLoop_mono x y rest (stepsOK_of hb hkeys) ⟨hmono, hrep32⟩ h
  exact ⟨z, z', by rw [← h1]; rfl, by rw [← h2]; rfl, h3⟩

/-- non-vacuity: the integer steps 40 ↦ 0, 50 ↦ 100, 60 ↦ 255. -/
def exSteps7 : List (Int × ℚ) := [(40, 0), (50, 100), (60, 255)]

theorem exSteps7_ok : (∀ p ∈ exSteps7, |p.1| ≤ 2 ^ 50 ∧ Rep64 p.2 ∧ 0 ≤ p.2 ∧ p.2 ≤ 255) ∧
    exSteps7.Pairwise (fun a b => a.1 < b.1) ∧ exSteps7.Pairwise (fun a b => a.2 ≤ b.2) ∧
    (∀ p ∈ exSteps7, Rep32 p.2) := by
  have r0 := (speedOK_int (n := 0) (by norm_num) (by norm_num)).rep
  have r1 := (speedOK_int (n := 100) (by norm_num) (by norm_num)).rep
  have r2 := (speedOK_int (n := 255) (by norm_num) (by norm_num)).rep
  have s0 := rep32_int (n := 0) (by norm_num) (by norm_num)
  have s1 := rep32_int (n := 100) (by norm_num) (by norm_num)
  have s2 := rep32_int (n := 255) (by norm_num) (by norm_num)
  push_cast at r0 r1 r2 s0 s1 s2
  refine ⟨?_, by simp [exSteps7], by simp [exSteps7]; norm_num, ?_⟩
  · intro p hp
    simp only [exSteps7, List.mem_cons, List.mem_nil_iff, or_false] at hp
    rcases hp with rfl | rfl | rfl <;> simp only <;> refine ⟨by norm_num, ?_, by norm_num, by norm_num⟩
    · exact r0
    · exact r1
    · exact r2
  · intro p hp
    simp only [exSteps7, List.mem_cons, List.mem_nil_iff, or_false] at hp
    rcases hp with rfl | rfl | rfl <;> simp only
    · exact s0
    · exact s1
    · exact s2

example : ∃ v w, linSteps (-2 ^ 63) (fin 49999) (toSteps exSteps7) = .ok v ∧
    linSteps (-2 ^ 63) (fin 50000) (toSteps exSteps7) = .ok w ∧ v ≤ w :=
  C07_steps_mono _ (by simp [exSteps7]) exSteps7_ok.1 exSteps7_ok.2.1 exSteps7_ok.2.2.1
    exSteps7_ok.2.2.2 (by rw [le_fin_fin]; norm_num)

/-- The full-strength claim: as `C07_steps_mono` but WITHOUT the binary32 hypothesis, for finite
    binary64 averages. -/
def C07_steps_mono_statement : Prop :=
  ∀ (indef : Int) (ks : List (Int × ℚ)), ks ≠ [] →
    (∀ p ∈ ks, |p.1| ≤ 2 ^ 50 ∧ Rep64 p.2 ∧ 0 ≤ p.2 ∧ p.2 ≤ 255) →
    ks.Pairwise (fun a b => a.1 < b.1) →
    ks.Pairwise (fun a b => a.2 ≤ b.2) →
    ∀ a b : ℚ, Rep64 a → Rep64 b → a ≤ b →
      ∃ v w, linSteps indef (fin a) (toSteps ks) = .ok v ∧
        linSteps indef (fin b) (toSteps ks) = .ok w ∧ v ≤ w

/-- witness steps: 59 °C ↦ 127.4970703125, 60 °C ↦ 127.49999999999998579 (the double just below
    127.5, bits `0x405FDFFFFFFFFFFF`). -/
def witnessSteps : List (Int × ℚ) := [(59, 130557 / 1024), (60, 8972014882193407 / 70368744177664)]

/-- **Finding**: at 59.999 °C the interpolated value is lifted by the float32 cast to exactly 127.5
    and rounds to 128; at 60.000 °C the knot value 127.4999… is returned uncast and rounds to 127.
    One milli-degree hotter, one PWM step slower. -/
theorem C07_steps_witness (indef : Int) :
    linSteps indef (fin 59999) (toSteps witnessSteps) = .ok 128 ∧
    linSteps indef (fin 60000) (toSteps witnessSteps) = .ok 127 := by
  have h1 : interpLoop true (toSteps witnessSteps) (fin 59999 / ofInt 1000) = fin (255 / 2) := by
    decide +kernel
  have h2 : interpLoop true (toSteps witnessSteps) (fin 60000 / ofInt 1000)
      = fin (8972014882193407 / 70368744177664) := by decide +kernel
  have r1 : roundRat (255 / 2) = 128 := by decide +kernel
  have r2 : roundRat (8972014882193407 / 70368744177664) = 127 := by decide +kernel
  constructor
  · have := linSteps_of_value indef (fin 59999) (59, 130557 / 1024)
      [(60, 8972014882193407 / 70368744177664)] (z := 255 / 2) h1 (by norm_num) (by norm_num)
    rw [r1] at this; exact this.1
  · have := linSteps_of_value indef (fin 60000) (59, 130557 / 1024)
      [(60, 8972014882193407 / 70368744177664)] (z := 8972014882193407 / 70368744177664) h2
      (by norm_num) (by norm_num)
    rw [r2] at this; exact this.1

theorem witnessSteps_ok :
    (∀ p ∈ witnessSteps, |p.1| ≤ 2 ^ 50 ∧ Rep64 p.2 ∧ 0 ≤ p.2 ∧ p.2 ≤ 255) ∧
    witnessSteps.Pairwise (fun a b => a.1 < b.1) ∧
    witnessSteps.Pairwise (fun a b => a.2 ≤ b.2) := by
  have r0 : Rep64 (130557 / 1024 : ℚ) := by
    exact (rep_iff (prec := 53) (emin := -1022) (by norm_num)).mpr
      ⟨130557, -10, by norm_num, by norm_num, by rw [pow2_def]; norm_num⟩
  have r1 : Rep64 (8972014882193407 / 70368744177664 : ℚ) := by
    exact (rep_iff (prec := 53) (emin := -1022) (by norm_num)).mpr
      ⟨8972014882193407, -46, by norm_num, by norm_num, by rw [pow2_def]; norm_num⟩
  refine ⟨?_, by simp [witnessSteps], by simp [witnessSteps]; norm_num⟩
  intro p hp
  simp only [witnessSteps, List.mem_cons, List.mem_nil_iff, or_false] at hp
  rcases hp with rfl | rfl <;> simp only <;> refine ⟨by norm_num, ?_, by norm_num, by norm_num⟩
  · exact r0
  · exact r1

/-- **Without the binary32 hypothesis monotonicity of the steps form is false.** -/
theorem C07_steps_refuted : ¬ C07_steps_mono_statement := by
  intro h
  have ra : Rep64 (59999 : ℚ) := by
    have := rep64_intCast 59999 (by norm_num); exact_mod_cast this
  have rb : Rep64 (60000 : ℚ) := by
    have := rep64_intCast 60000 (by norm_num); exact_mod_cast this
  obtain ⟨v, w, hv, hw, hvw⟩ := h 0 witnessSteps (by simp [witnessSteps]) witnessSteps_ok.1
    witnessSteps_ok.2.1 witnessSteps_ok.2.2 59999 60000 ra rb (by norm_num)
  rw [(C07_steps_witness 0).1] at hv
  rw [(C07_steps_witness 0).2] at hw
  simp only [Res.ok.injEq] at hv hw
  omega

/-! ## 3. function curves -/

/-- `sum`, `maximum`, `minimum`, `average` are monotone in every member value. -/
theorem C07_fn_mono (indef : Int) {ty : String}
    (hty : ty = "sum" ∨ ty = "maximum" ∨ ty = "minimum" ∨ ty = "average") {vs ws : List Int}
    (hvw : List.Forall₂ (· ≤ ·) vs ws) (hv : ∀ v ∈ vs, 0 ≤ v ∧ v ≤ 255)
    (hw : ∀ w ∈ ws, 0 ≤ w ∧ w ≤ 255) (hl : vs.length ≤ 2 ^ 40)
    (hne : ty = "average" → vs ≠ []) :
    ∃ a b, evalFn indef ty vs = .ok a ∧ evalFn indef ty ws = .ok b ∧ a ≤ b :=
  evalFn_mono indef hty hvw hv hw hl hne

example : ∃ a b, evalFn (-2 ^ 63) "average" [10, 20] = .ok a ∧
    evalFn (-2 ^ 63) "average" [10, 21] = .ok b ∧ a ≤ b :=
  C07_fn_mono _ (by simp) (by simp) (by intro v hv; simp at hv; omega)
    (by intro v hv; simp at hv; omega) (by norm_num) (by simp)

/-- the monotone claim for a function type `ty`. -/
def FnMonoStatement (indef : Int) (ty : String) : Prop :=
  ∀ vs ws : List Int, List.Forall₂ (· ≤ ·) vs ws → (∀ v ∈ vs, 0 ≤ v ∧ v ≤ 255) →
    (∀ w ∈ ws, 0 ≤ w ∧ w ≤ 255) →
    ∃ a b, evalFn indef ty vs = .ok a ∧ evalFn indef ty ws = .ok b ∧ a ≤ b

/-- `difference` must be excluded: raising the second member lowers the result
    (`100 - 0 = 100`, `100 - 50 = 50`). -/
theorem C07_fn_difference_not_mono (indef : Int) : ¬ FnMonoStatement indef "difference" := by
  intro h
  obtain ⟨a, b, ha, hb, hab⟩ := h [100, 0] [100, 50] (by simp)
    (by intro v hv; simp at hv; omega) (by intro v hv; simp at hv; omega)
  rw [evalFn_difference indef (by intro v hv; simp at hv; omega) (by norm_num)] at ha
  rw [evalFn_difference indef (by intro v hv; simp at hv; omega) (by norm_num)] at hb
  simp only [Res.ok.injEq, List.sum_cons, List.sum_nil] at ha hb
  omega

/-- `delta` must be excluded: raising the smallest member lowers the result
    (`100 - 0 = 100`, `100 - 100 = 0`). -/
theorem C07_fn_delta_not_mono (indef : Int) : ¬ FnMonoStatement indef "delta" := by
  intro h
  obtain ⟨a, b, ha, hb, hab⟩ := h [0, 100] [100, 100] (by simp)
    (by intro v hv; simp at hv; omega) (by intro v hv; simp at hv; omega)
  rw [evalFn_delta indef (by intro v hv; simp at hv; omega)] at ha
  rw [evalFn_delta indef (by intro v hv; simp at hv; omega)] at hb
  simp only [Res.ok.injEq, List.foldl_cons, List.foldl_nil] at ha hb
  omega

/-! ## 3b. nested function curves inherit monotonicity -/

/-- **A whole monotone curve tree is monotone in the sensor averages.**
    `SensorsLe S S'`: every sensor of `S` exists in `S'` with `avg ≤ avg'` (Go `<=`, so no NaN).
    `WFMonoCurve S (cfgOf tbl) fuel id` (`Proofs/CurveTree.lean`): with depth ≤ `fuel`, leaves are
    linear curves (min/max form with 64-bit bounds, or steps satisfying the hypotheses of
    `C07_steps_mono`) on existing sensors, inner nodes are `sum` / `maximum` / `minimum` / `average`
    curves with 1..2^40 members. The two runs may start from different tables (e.g. the second from
    the table left by the first) as long as the configurations agree, and at different times. -/
theorem C07_tree_mono (indef : Int) (S S' : SensorTable) (hS : SensorsLe S S') (now now' : Int)
    (fuel : Nat) (tbl tbl' : CurveTable) (id : String) (hcfg : cfgOf tbl = cfgOf tbl')
    (h : WFMonoCurve S (cfgOf tbl) fuel id) :
    ∃ v v', (evalCurve indef S now fuel tbl id).2 = .ok v ∧
      (evalCurve indef S' now' fuel tbl' id).2 = .ok v' ∧ v ≤ v' :=
  let ⟨v, v', h1, h2, h3, _, _⟩ := evalCurve_mono indef S S' hS now now' fuel tbl tbl' id hcfg h
  ⟨v, v', h1, h2, h3⟩

/-- non-vacuity: `max(avg(a, b), a)` over a min/max leaf and a steps leaf; 45 °C vs 47 °C. -/
def exTable7 : CurveTable :=
  [ { id := "a", cfg := .linear "s" 40 60 none },
    { id := "b", cfg := .linear "s" 0 0 (some (toSteps exSteps7)) },
    { id := "f", cfg := .function "average" ["a", "b"] },
    { id := "g", cfg := .function "maximum" ["f", "a"] } ]
def exS7 (t : ℚ) : SensorTable := [("s", { avg := fin t, value := .ok (fin t) })]

theorem exS7_le : SensorsLe (exS7 45000) (exS7 47000) := by
  intro s sv h
  unfold exS7 SensorTable.get? at *
  simp only [List.find?_cons, List.find?_nil] at h ⊢
  cases hs : ("s" == s) <;> simp only [hs] at h ⊢
  · simp at h
  · simp only [Option.map_some, Option.some.injEq] at h
    subst h
    exact ⟨_, rfl, by simp only [le_fin_fin]; norm_num⟩

theorem exTable7_wf : WFMonoCurve (exS7 45000) (cfgOf exTable7) 3 "g" := by
  have hs : (exS7 45000).get? "s" = some { avg := fin 45000, value := .ok (fin 45000) } := by
    simp [SensorTable.get?, exS7]
  have ha : ∀ n, WFMonoCurve (exS7 45000) (cfgOf exTable7) (n + 1) "a" := fun n =>
    .minmax (sensor := "s") (mn := 40) (mx := 60) (by simp [cfgOf, CurveTable.get?, exTable7])
      (by norm_num) (by norm_num) hs
  have hb : WFMonoCurve (exS7 45000) (cfgOf exTable7) 1 "b" :=
    .steps (sensor := "s") (mn := 0) (mx := 0) (x := 40) (y := 0) (rest := [(50, 100), (60, 255)])
      (by simp [cfgOf, CurveTable.get?, exTable7, exSteps7])
      (stepsOK_of exSteps7_ok.1 exSteps7_ok.2.1) ⟨exSteps7_ok.2.2.1, exSteps7_ok.2.2.2⟩ hs
  have hf : WFMonoCurve (exS7 45000) (cfgOf exTable7) 2 "f" :=
    .fn (ty := "average") (members := ["a", "b"]) (by simp [cfgOf, CurveTable.get?, exTable7])
      (by unfold IsMonoFnType; simp) (by simp) (by norm_num)
      (by intro m hm; simp at hm; rcases hm with rfl | rfl; exact ha 0; exact hb)
  exact .fn (ty := "maximum") (members := ["f", "a"]) (by simp [cfgOf, CurveTable.get?, exTable7])
    (by unfold IsMonoFnType; simp) (by simp) (by norm_num)
    (by intro m hm; simp at hm; rcases hm with rfl | rfl; exact hf; exact ha 1)

example : ∃ v v', (evalCurve (-2 ^ 63) (exS7 45000) 0 3 exTable7 "g").2 = .ok v ∧
    (evalCurve (-2 ^ 63) (exS7 47000) 5 3 exTable7 "g").2 = .ok v' ∧ v ≤ v' :=
  C07_tree_mono _ _ _ exS7_le 0 5 3 _ _ "g" rfl exTable7_wf

/-! ## 4. requested PWM -/

/-- Direct control loop without `maxPwmChangePerCycle`: the requested PWM
    `rescale (clamp255 (loop value)) minPwm maxPwm` (controller.go:461) is non-decreasing in the
    curve value, whatever the current PWM. -/
theorem C07_request_mono (indef : Int) {c c' cur cur' lo hi : Int} (hc : |c| ≤ 2 ^ 53)
    (hc' : |c'| ≤ 2 ^ 53) (hcc : c ≤ c') (hlo : |lo| ≤ 2 ^ 50) (hhi : |hi| ≤ 2 ^ 50)
    (h : lo ≤ hi) :
    rescale indef (clamp255 (directCycle indef none c cur)) lo hi
      ≤ rescale indef (clamp255 (directCycle indef none c' cur')) lo hi :=
  c07_request_mono indef hc hc' hcc hlo hhi h

example : rescale (-2 ^ 63) (clamp255 (directCycle (-2 ^ 63) none 100 7)) 30 200
    ≤ rescale (-2 ^ 63) (clamp255 (directCycle (-2 ^ 63) none 101 9)) 30 200 :=
  C07_request_mono _ (by norm_num) (by norm_num) (by norm_num) (by norm_num) (by norm_num)
    (by norm_num)

end Fan2go

/-! ### audit -/
#print axioms Fan2go.C07_linear_mono
#print axioms Fan2go.C07_linear_mono_ext
#print axioms Fan2go.C07_steps_mono
#print axioms Fan2go.C07_interp_mono
#print axioms Fan2go.C07_steps_witness
#print axioms Fan2go.C07_steps_refuted
#print axioms Fan2go.C07_fn_mono
#print axioms Fan2go.C07_fn_difference_not_mono
#print axioms Fan2go.C07_fn_delta_not_mono
#print axioms Fan2go.C07_tree_mono
#print axioms Fan2go.C07_request_mono
