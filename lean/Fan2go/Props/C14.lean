/-
  C14  Stored fan data round-trips and is isolated per fan and per kind
       (internal/persistence/persistence.go)

  All theorems are about the executable model `Fan2go.Persist` (Model/Persist.lean), for ARBITRARY
  database states and ARBITRARY, unboundedly long operation sequences (`run db ops`, induction over
  the list). The model is tied to the Go code by the `ps` correspondence stream
  (go/harness/persist.go vs Driver/PersistStream.lean on the same random operation files).

  ASSUMED, not proved here (these are properties of third-party code the model takes as given):
  * bbolt (go.etcd.io/bbolt): `db.Update` is atomic and durable – a transaction takes effect
    entirely or not at all, also when the process is killed at any moment (this is what
    `CrashDuringSave` encodes), and what was committed is what a later `bolt.Open` of the file sees
    (this is why `reopen` is the identity on the model state); `bolt.Open` itself succeeds;
    buckets are independent finite maps from non-empty keys (≤ 32768 bytes) to byte strings.
  * encoding/json: `Unmarshal (Marshal m) = m` for `map[int]float64` without NaN/±Inf and for
    `map[int]int` (nil ↦ `null` ↦ nil); `Marshal` fails exactly on NaN/±Inf; `Unmarshal` of bytes
    that are not JSON leaves the target untouched. (The model stores the decoded value, not bytes.)
  * Go `int` keys/values are within 64 bits (the model uses unbounded `Int`).

  A "slot" is a pair (kind, fan id). `abs db k id : Option (Blob _)` is the content of a slot;
  `(load db k id).2` is what `Load*` returns, `(load db k id).1` the file afterwards.
-/
import Fan2go.Proofs.Persist
namespace Fan2go
open Persist

/-! ### (a) refinement of the obvious specification -/

/-- Every operation sequence produces on the model (buckets that may or may not exist, key/value
    lists, deletion of corrupt entries inside `load`) exactly the outputs of the specification
    (one total function from slots to optional contents), and the abstraction commutes. -/
theorem C14_refinement (db : Db) (ops : List Op) :
    (run db ops).2 = (Spec.run (abs db) ops).2 ∧ abs (run db ops).1 = (Spec.run (abs db) ops).1 :=
  ⟨(run_refines db ops).2, (run_refines db ops).1⟩

theorem C14_abs_empty : abs Db.empty = Spec.empty := by
  funext k id; cases k <;> rfl

/-- … in particular from a freshly created database file. -/
theorem C14_refinement_fresh (ops : List Op) : (run Db.empty ops).2 = (Spec.run Spec.empty ops).2 := by
  rw [← C14_abs_empty]; exact (C14_refinement Db.empty ops).1

example : (run Db.empty [.load .rpm "a", .save .pwmMap "a" none, .load .pwmMap "a"]).2
    = (Spec.run Spec.empty [.load .rpm "a", .save .pwmMap "a" none, .load .pwmMap "a"]).2 :=
  C14_refinement_fresh _

/-! ### (b) round trip -/

/-- After a successful `save k id arg` (key acceptable to bbolt, `arg` encodable to `v`), and then
    ANY sequence of operations none of which is a save / delete / putRaw on the same slot – loads
    of that slot, reopening, and arbitrary operations on other fans or on the other kind are all
    allowed – `load k id` returns `v`. Holds from every database state, so it covers overwriting. -/
theorem C14_roundtrip (db : Db) (k : Kind) (id : String) (arg v : k.Val) (ops : List Op)
    (hkey : keyOk id = true) (henc : encode k arg = .ok v)
    (hops : ∀ op ∈ ops, op.writes k id = false) :
    (save db k id arg).2 = .ok () ∧ (load (run (save db k id arg).1 ops).1 k id).2 = .ok v := by
  obtain ⟨hok, habs⟩ := save_ok db k id arg v hkey henc
  refine ⟨hok, ?_⟩
  rw [load_out, run_keeps_valid _ ops k id v (by rw [habs]; exact Spec.set_same _ _ _ _) hops]
  rfl

/-- RPM-curve data (`SaveFanPwmData` / `LoadFanPwmData`): any map with finite values comes back unchanged. -/
theorem C14_roundtrip_rpm (db : Db) (id : String) (m : List (Int × F64)) (ops : List Op)
    (hkey : keyOk id = true) (hfin : allFinite m = true)
    (hops : ∀ op ∈ ops, op.writes .rpm id = false) :
    (loadRpm (run (saveRpm db id (some m)).1 ops).1 id).2 = .ok (some m) :=
  (C14_roundtrip db .rpm id (some m) (some m) ops hkey (by simp [encode, hfin]) hops).2

/-- PWM map (`SaveFanPwmMap` / `LoadFanPwmMap`): any map (the nil map included) comes back unchanged. -/
theorem C14_roundtrip_pwmMap (db : Db) (id : String) (m : Option (List (Int × Int))) (ops : List Op)
    (hkey : keyOk id = true) (hops : ∀ op ∈ ops, op.writes .pwmMap id = false) :
    (loadMap (run (saveMap db id m).1 ops).1 id).2 = .ok m :=
  (C14_roundtrip db .pwmMap id m m ops hkey rfl hops).2

-- non-vacuity: a negative key, other-kind traffic on the same id, a reopen, a delete of another fan
example :
    (loadMap (run (saveMap Db.empty "fanA" (some [(-3, 7), (1, 2)])).1
      [.load .rpm "fanA", .reopen, .save .rpm "fanA" (some []), .delete .pwmMap "fanB",
       .putRaw .rpm "fanA" (.corrupt none), .load .rpm "fanA", .load .pwmMap "fanA"]).1 "fanA").2
      = .ok (some [(-3, 7), (1, 2)]) :=
  C14_roundtrip_pwmMap Db.empty "fanA" _ _ (by decide) (by simp [Op.writes])

example :
    (loadRpm (run (saveRpm Db.empty "fanA" (some [(-5, F64.fin 0), (20, F64.fin (1801 / 2))])).1
      [.save .pwmMap "fanA" none, .delete .rpm "fanB", .reopen]).1 "fanA").2
      = .ok (some [(-5, F64.fin 0), (20, F64.fin (1801 / 2))]) :=
  C14_roundtrip_rpm Db.empty "fanA" _ _ (by decide) (by simp [allFinite, F64.isFinite]) (by simp [Op.writes])

/-! ### (c) isolation -/

/-- An operation leaves every slot other than its own untouched: content and `load` result.
    `(k', id') ≠ (k, id)` includes "same fan id, other kind" and "same kind, other fan". -/
theorem C14_isolation (db : Db) (op : Op) (k' : Kind) (id' : String)
    (h : op.target ≠ some (k', id')) :
    abs (step db op).1 k' id' = abs db k' id' ∧
    (load (step db op).1 k' id').2 = (load db k' id').2 := by
  have := step_frame db op k' id' h
  exact ⟨this, by rw [load_out, load_out, this]⟩

/-- the same for a whole sequence of operations none of which is about slot `(k', id')` -/
theorem C14_isolation_run (db : Db) (ops : List Op) (k' : Kind) (id' : String)
    (h : ∀ op ∈ ops, op.target ≠ some (k', id')) :
    abs (run db ops).1 k' id' = abs db k' id' ∧
    (load (run db ops).1 k' id').2 = (load db k' id').2 := by
  have := run_frame db ops k' id' h
  exact ⟨this, by rw [load_out, load_out, this]⟩

/-- the special case singled out in the property: same fan id, other kind -/
theorem C14_isolation_other_kind (db : Db) (op : Op) (k k' : Kind) (id : String)
    (ht : op.target = some (k, id)) (hk : k' ≠ k) :
    (load (step db op).1 k' id).2 = (load db k' id).2 :=
  (C14_isolation db op k' id (by rw [ht]; intro e; cases e; exact hk rfl)).2

example (db : Db) : (load (step db (.delete .rpm "fanA")).1 .pwmMap "fanA").2 = (load db .pwmMap "fanA").2 :=
  C14_isolation_other_kind db _ .rpm .pwmMap "fanA" rfl (by decide)

example (db : Db) : (load (step db (.save .rpm "fanA" (some []))).1 .rpm "fanB").2 = (load db .rpm "fanB").2 :=
  (C14_isolation db _ .rpm "fanB" (by simp [Op.target])).2

/-! ### (d) missing entries, idempotent delete, corrupt entries -/

/-- `load` only ever answers "here is the map" or "not found"; it has no other failure
    (given that the db file can be opened). -/
theorem C14_load_total (db : Db) (k : Kind) (id : String) :
    (∃ v, (load db k id).2 = .ok v) ∨ (load db k id).2 = .err "notfound" := by
  rw [load_out]
  cases abs db k id with
  | none => exact Or.inr rfl
  | some b => cases b with
    | valid v => exact Or.inl ⟨v, rfl⟩
    | corrupt p => exact Or.inl ⟨p, rfl⟩

/-- Loading a slot that was never stored into (no save / putRaw on it since the file was created)
    reports "not found", whatever else happened in between. -/
theorem C14_missing (ops : List Op) (k : Kind) (id : String)
    (h : ∀ op ∈ ops, op.stores k id = false) :
    (load (run Db.empty ops).1 k id).2 = .err "notfound" := by
  rw [load_out, run_keeps_absent Db.empty ops k id (by rw [C14_abs_empty]; rfl) h]
  rfl

example : (load (run Db.empty [.save .rpm "fanA" (some []), .save .pwmMap "fanB" none,
    .delete .pwmMap "fanA", .load .pwmMap "fanA"]).1 .pwmMap "fanA").2 = .err "notfound" :=
  C14_missing _ .pwmMap "fanA" (by simp [Op.stores])

/-- `delete` always succeeds; afterwards the slot is "not found"; a second delete (or a delete of
    something that was never there) succeeds as well and changes nothing at all. -/
theorem C14_delete_idem (db : Db) (k : Kind) (id : String) :
    (delete db k id).2 = .ok () ∧
    (load (delete db k id).1 k id).2 = .err "notfound" ∧
    delete (delete db k id).1 k id = ((delete db k id).1, .ok ()) ∧
    (abs db k id = none → delete db k id = (db, .ok ())) := by
  have habs : abs (delete db k id).1 k id = none := by rw [delete_abs]; exact Spec.set_same _ _ _ _
  refine ⟨delete_out db k id, ?_, delete_absent _ k id habs, delete_absent db k id⟩
  rw [load_out, habs]; rfl

example : (delete Db.empty .rpm "fanA").2 = .ok () := (C14_delete_idem _ _ _).1
example : delete Db.empty .rpm "fanA" = (Db.empty, .ok ()) := (C14_delete_idem _ _ _).2.2.2 rfl

/-- An undecodable entry (`json.Unmarshal` fails and leaves `p` in the map variable; `p = none`,
    a nil map, for bytes that are not JSON) is discarded by the first `load`, which – as the Go code
    does – returns `p` with a NIL error; the next `load` reports "not found"; all other slots are
    untouched. No `load` ever fails because of it (`C14_load_total`). -/
theorem C14_corrupt_discarded (db : Db) (k : Kind) (id : String) (p : k.Val)
    (h : abs db k id = some (.corrupt p)) :
    (load db k id).2 = .ok p ∧
    (load (load db k id).1 k id).2 = .err "notfound" ∧
    (∀ k' id', (k', id') ≠ (k, id) → abs (load db k id).1 k' id' = abs db k' id') := by
  have habs : abs (load db k id).1 = (abs db).set k id none := by rw [load_abs, h]
  refine ⟨by rw [load_out, h]; rfl, ?_, ?_⟩
  · rw [load_out, habs, Spec.set_same]; rfl
  · intro k' id' hne
    rw [habs]; exact Spec.set_ne _ _ hne

/-- the same, starting from the injection of garbage bytes -/
theorem C14_corrupt_discarded_putRaw (db : Db) (k : Kind) (id : String) (p : k.Val)
    (hkey : keyOk id = true) :
    let db1 := (putRaw db k id (.corrupt p)).1
    (load db1 k id).2 = .ok p ∧ (load (load db1 k id).1 k id).2 = .err "notfound" ∧
    (∀ k' id', (k', id') ≠ (k, id) → abs (load db1 k id).1 k' id' = abs db k' id') := by
  have hput : abs (putRaw db k id (.corrupt p)).1 = (abs db).set k id (some (.corrupt p)) := by
    simp only [putRaw, hkey, if_true]; exact abs_put db k id _
  have hc := C14_corrupt_discarded (putRaw db k id (.corrupt p)).1 k id p (by rw [hput, Spec.set_same])
  refine ⟨hc.1, hc.2.1, ?_⟩
  intro k' id' hne
  rw [hc.2.2 k' id' hne, hput]; exact Spec.set_ne _ _ hne

example : (load (putRaw Db.empty .rpm "fanA" (.corrupt none)).1 .rpm "fanA").2 = .ok none :=
  (C14_corrupt_discarded_putRaw Db.empty .rpm "fanA" none (by decide)).1

/-! ### (e) crash during a save -/

/-- If the process is killed at any moment during `save k id arg`, a later `load k id` returns
    either what it would have returned before, or the new value; every other slot is unchanged. -/
theorem C14_crash_atomic (db db' : Db) (k : Kind) (id : String) (arg : k.Val)
    (h : CrashDuringSave db k id arg db') :
    ((load db' k id).2 = (load db k id).2 ∨
      ∃ v, encode k arg = .ok v ∧ (load db' k id).2 = .ok v) ∧
    (∀ k' id', (k', id') ≠ (k, id) →
      abs db' k' id' = abs db k' id' ∧ (load db' k' id').2 = (load db k' id').2) := by
  have hcases : abs db' = abs db ∨
      ∃ v, encode k arg = .ok v ∧ abs db' = (abs db).set k id (some (.valid v)) := by
    rcases h with rfl | rfl
    · exact Or.inl rfl
    · rcases save_cases db k id arg with e | ⟨v, hv, ha⟩
      · exact Or.inl (by rw [e])
      · exact Or.inr ⟨v, hv, ha⟩
  rcases hcases with e | ⟨v, hv, ha⟩
  · refine ⟨Or.inl (by rw [load_out, load_out, e]), fun k' id' _ => ?_⟩
    exact ⟨by rw [e], by rw [load_out, load_out, e]⟩
  · refine ⟨Or.inr ⟨v, hv, by rw [load_out, ha, Spec.set_same]; rfl⟩, fun k' id' hne => ?_⟩
    have : abs db' k' id' = abs db k' id' := by rw [ha]; exact Spec.set_ne _ _ hne
    exact ⟨this, by rw [load_out, load_out, this]⟩

/-- After a crash during a save, repeating the save gives exactly the state (and result) of an
    uninterrupted save – whichever of the two possible states the crash left behind. -/
theorem C14_crash_then_retry (db db' : Db) (k : Kind) (id : String) (arg : k.Val)
    (h : CrashDuringSave db k id arg db') : save db' k id arg = save db k id arg := by
  rcases h with rfl | rfl
  · rfl
  · exact save_save db k id arg

-- non-vacuity: both outcomes of the relation exist
example : CrashDuringSave Db.empty .pwmMap "fanA" (some [(1, 2)]) Db.empty := Or.inl rfl
example : CrashDuringSave Db.empty .pwmMap "fanA" (some [(1, 2)])
    (save Db.empty .pwmMap "fanA" (some [(1, 2)])).1 := Or.inr rfl

/-! ### (f) non-finite values are rejected -/

/-- `SaveFanPwmData` with a NaN or ±Inf value anywhere in the map returns an error
    (`json.Marshal` refuses) and stores nothing – the previous entry, if any, stays. -/
theorem C14_save_nonfinite_rejected (db : Db) (id : String) (m : List (Int × F64))
    (h : ∃ p ∈ m, p.2.isFinite = false) :
    saveRpm db id (some m) = (db, .err "marshal") := by
  obtain ⟨p, hp, hf⟩ := h
  simp [saveRpm, save, encode, allFinite_false_of_mem hp hf]

example (db : Db) : saveRpm db "fanA" (some [(1, F64.zero), (2, F64.nan)]) = (db, .err "marshal") :=
  C14_save_nonfinite_rejected db "fanA" _ ⟨(2, F64.nan), by simp, rfl⟩

example (db : Db) : saveRpm db "fanA" (some [(1, F64.inf true)]) = (db, .err "marshal") :=
  C14_save_nonfinite_rejected db "fanA" _ ⟨(1, F64.inf true), by simp, rfl⟩

end Fan2go

#print axioms Fan2go.C14_refinement
#print axioms Fan2go.C14_refinement_fresh
#print axioms Fan2go.C14_roundtrip
#print axioms Fan2go.C14_roundtrip_rpm
#print axioms Fan2go.C14_roundtrip_pwmMap
#print axioms Fan2go.C14_isolation
#print axioms Fan2go.C14_isolation_run
#print axioms Fan2go.C14_isolation_other_kind
#print axioms Fan2go.C14_load_total
#print axioms Fan2go.C14_missing
#print axioms Fan2go.C14_delete_idem
#print axioms Fan2go.C14_corrupt_discarded
#print axioms Fan2go.C14_corrupt_discarded_putRaw
#print axioms Fan2go.C14_crash_atomic
#print axioms Fan2go.C14_crash_then_retry
#print axioms Fan2go.C14_save_nonfinite_rejected
