/-
  C06 — "Curves evaluate to their documented function, always within 0..255".

  Statements about the MODEL `Fan2go/Model/Curves.lean` (+ `Model/Util.lean`) of
  internal/curves/{linear,functional,pid}.go and internal/util/{math,pid}.go; proofs in
  `Fan2go/Proofs/{F64Ops,Linear,Interp,FnCurves,CurveTree}.lean`.
  Every theorem holds for ALL values `indef` of the implementation-defined `int(NaN)`.

  Outcome:
  * linear (min/max and steps) and the six function types: PROVED in range 0..255 and equal to the
    documented function, for every non-NaN sensor average (±Inf included), under the hypotheses
    stated in each theorem (64-bit `min`/`max`; step keys `|k| ≤ 2^50`; speeds binary64 in [0,255];
    at most `2^40` members).
  * the dependency on C08 is a theorem: a NaN average makes the min/max form return `int(NaN)`
    (`C06_linear_nan`).
  * PID curve: in range iff the loop value is not NaN (`C06_pid_range`, `C06_pid_nan`); the
    unconditional claim is REFUTED (`C06_pid_refuted`) — finding, see the end of the file.
-/
import Fan2go.Proofs.Linear
import Fan2go.Proofs.Interp
import Fan2go.Proofs.FnCurves
import Fan2go.Proofs.CurveTree

namespace Fan2go
open F64

/-! ## 1. linear curve, min/max form -/

/-- Range, for every non-NaN average (finite, `+Inf`, `-Inf`) and ANY 64-bit `min`, `max`
    (also `min ≥ max`). -/
theorem C06_linear_range (indef : Int) {avg : F64} (havg : avg ≠ nan) {mn mx : Int}
    (hmn : |mn| ≤ 2 ^ 63) (hmx : |mx| ≤ 2 ^ 63) :
    0 ≤ linMinMax indef avg mn mx ∧ linMinMax indef avg mn mx ≤ 255 :=
  linMinMax_range indef havg hmn hmx

example : 0 ≤ linMinMax (-2 ^ 63) (fin 45000) 40 60 ∧ linMinMax (-2 ^ 63) (fin 45000) 40 60 ≤ 255 :=
  C06_linear_range _ (by simp) (by norm_num) (by norm_num)
example : linMinMax (-2 ^ 63) (fin 45000) 40 60 = 63 := by decide +kernel

/-- Saturation: at/above `max` the value is 255; at/below `min` (and below `max`) it is 0.
    The comparisons are Go's float64 comparisons with `float64(max)*1000`, `float64(min)*1000`. -/
theorem C06_linear_ends (indef : Int) (avg : F64) (mn mx : Int) :
    (ge avg (ofInt mx * ofInt 1000) = true → linMinMax indef avg mn mx = 255) ∧
    (ge avg (ofInt mx * ofInt 1000) = false → le avg (ofInt mn * ofInt 1000) = true →
      linMinMax indef avg mn mx = 0) := by
  constructor
  · intro h; unfold linMinMax; simp only [h, if_true]
  · intro h1 h2; unfold linMinMax; simp only [h1, h2, Bool.false_eq_true, if_false, if_true]

/-- the same in degrees, for realistic temperatures (`float64(n)*1000` is then exact). -/
theorem C06_linear_ends_exact (indef : Int) (q : ℚ) {mn mx : Int} (hmn : |mn| ≤ 2 ^ 43)
    (hmx : |mx| ≤ 2 ^ 43) :
    ((mx : ℚ) * 1000 ≤ q → linMinMax indef (fin q) mn mx = 255) ∧
    (q < (mx : ℚ) * 1000 → q ≤ (mn : ℚ) * 1000 → linMinMax indef (fin q) mn mx = 0) := by
  have h63 : ∀ n : Int, |n| ≤ 2 ^ 43 → |n| ≤ 2 ^ 63 := fun n h => h.trans (by norm_num)
  rcases linMinMax_fin_cases indef q (h63 mn hmn) (h63 mx hmx) with h | h | h <;>
    simp only [kTemp_exact hmn, kTemp_exact hmx] at h
  · exact ⟨fun _ => h.2, fun h1 _ => absurd h.1 (not_le.mpr h1)⟩
  · exact ⟨fun h1 => absurd h1 (not_le.mpr h.1), fun _ _ => h.2.2⟩
  · exact ⟨fun h1 => absurd h1 (not_le.mpr h.2.1), fun _ h2 => absurd h.1 (not_lt.mpr h2)⟩

example : linMinMax (-2 ^ 63) (fin 60000) 40 60 = 255 :=
  (C06_linear_ends_exact _ 60000 (by norm_num) (by norm_num)).1 (by norm_num)
example : linMinMax (-2 ^ 63) (fin 40000) 40 60 = 0 :=
  (C06_linear_ends_exact _ 40000 (by norm_num) (by norm_num)).2 (by norm_num) (by norm_num)

/-- Between the ends the value is the truncation of four correctly rounded float64 operations
    `((q - m) / (X - m)) * 255` with `m = float64(min)*1000`, `X = float64(max)*1000`. -/
theorem C06_linear_mid (indef : Int) {q : ℚ} {mn mx : Int} (hmn : |mn| ≤ 2 ^ 63)
    (hmx : |mx| ≤ 2 ^ 63) (h1 : kTemp mn < q) (h2 : q < kTemp mx) :
    linMinMax indef (fin q) mn mx
      = truncRat (fl64 (fl64 (fl64 (q - kTemp mn) / fl64 (kTemp mx - kTemp mn)) * 255)) :=
  linMinMax_mid indef hmn hmx h1 h2

example : kTemp 40 < (45000 : ℚ) ∧ (45000 : ℚ) < kTemp 60 := by
  rw [kTemp_exact (by norm_num), kTemp_exact (by norm_num)]; norm_num

/-- Agreement with the documented function: for realistic temperatures (`|min|, |max| ≤ 2^42` °C,
    `min·1000 < q < max·1000`) the value differs from the exact
    `255·(q − 1000·min)/(1000·(max − min))` by less than `1 + 2^-40` — the `1` is the truncation
    `int(·)`, the rest bounds all four float64 roundings. (The task suggested `|min| ≤ 2^50`; beyond
    `2^43` the product `float64(min)*1000` is itself rounded, so the bound is stated for `2^42`.) -/
theorem C06_linear_close (indef : Int) {q : ℚ} {mn mx : Int} (hmn : |mn| ≤ 2 ^ 42)
    (hmx : |mx| ≤ 2 ^ 42) (h1 : (mn : ℚ) * 1000 < q) (h2 : q < (mx : ℚ) * 1000) :
    |((linMinMax indef (fin q) mn mx : Int) : ℚ)
      - 255 * (q - 1000 * mn) / (1000 * ((mx : ℚ) - mn))| < 1 + 1 / 2 ^ 40 := by
  have e1 := kTemp_exact (n := mn) (hmn.trans (by norm_num))
  have e2 := kTemp_exact (n := mx) (hmx.trans (by norm_num))
  have hv := linMinMax_mid indef (q := q) (mn := mn) (mx := mx) (hmn.trans (by norm_num))
    (hmx.trans (by norm_num)) (by rw [e1]; exact h1) (by rw [e2]; exact h2)
  rw [e1, e2] at hv
  rw [hv]
  have hb := linMid_bounds (q := q) (m := (mn : ℚ) * 1000) (X := (mx : ℚ) * 1000) h1.le h2.le
  have ht := truncRat_le_self hb.1
  have hc := abs_le.mp (linMid_close hmn hmx h1 h2)
  have : (1 : ℚ) / 2 ^ 42 < 1 / 2 ^ 40 := by norm_num
  rw [abs_lt]
  constructor <;> linarith [ht.1, ht.2, hc.1, hc.2]

example : |((linMinMax (-2 ^ 63) (fin 45000) 40 60 : Int) : ℚ)
    - 255 * (45000 - 1000 * (40 : Int)) / (1000 * (((60 : Int) : ℚ) - (40 : Int)))| < 1 + 1 / 2 ^ 40 :=
  C06_linear_close _ (by norm_num) (by norm_num) (by norm_num) (by norm_num)

/-- **Dependency on C08**: with a NaN average both guards are false, the ratio is NaN and the
    curve returns the implementation-defined `int(NaN)` (amd64: `-2^63`) — for any `min`, `max`. -/
theorem C06_linear_nan (indef : Int) (mn mx : Int) : linMinMax indef nan mn mx = indef :=
  linMinMax_nan indef mn mx

example : linMinMax (-2 ^ 63) nan 40 60 = -2 ^ 63 := C06_linear_nan _ _ _

/-! ## 2. linear curve, steps form -/

/-- Range: non-empty steps, keys strictly increasing with `|key| ≤ 2^50`, speeds finite binary64
    values in `[0, 255]` (in any order); every non-NaN average. -/
theorem C06_steps_range (indef : Int) {ks : List (Int × ℚ)} (hne : ks ≠ [])
    (hb : ∀ p ∈ ks, |p.1| ≤ 2 ^ 50 ∧ Rep64 p.2 ∧ 0 ≤ p.2 ∧ p.2 ≤ 255)
    (hkeys : ks.Pairwise (fun a b => a.1 < b.1)) {avg : F64} (havg : avg ≠ nan) :
    ∃ v, linSteps indef avg (toSteps ks) = .ok v ∧ 0 ≤ v ∧ v ≤ 255 := by
  have hok := stepsOK_of hb hkeys
  match ks, hne, hok with
  | (x, y) :: rest, _, hok => exact linSteps_range indef x y rest hok havg

/-- a concrete well-formed step list (used by the non-vacuity examples). -/
def exSteps : List (Int × ℚ) := [(40, 0), (50, 100), (60, 255)]

theorem exSteps_ok : (∀ p ∈ exSteps, |p.1| ≤ 2 ^ 50 ∧ Rep64 p.2 ∧ 0 ≤ p.2 ∧ p.2 ≤ 255) ∧
    exSteps.Pairwise (fun a b => a.1 < b.1) := by
  have r0 := (speedOK_int (n := 0) (by norm_num) (by norm_num)).rep
  have r1 := (speedOK_int (n := 100) (by norm_num) (by norm_num)).rep
  have r2 := (speedOK_int (n := 255) (by norm_num) (by norm_num)).rep
  push_cast at r0 r1 r2
  constructor
  · intro p hp
    simp only [exSteps, List.mem_cons, List.mem_nil_iff, or_false] at hp
    rcases hp with rfl | rfl | rfl <;> simp only <;> refine ⟨by norm_num, ?_, by norm_num, by norm_num⟩
    · exact r0
    · exact r1
    · exact r2
  · simp [exSteps]

example : ∃ v, linSteps (-2 ^ 63) (fin 45000) (toSteps exSteps) = .ok v ∧ 0 ≤ v ∧ v ≤ 255 :=
  C06_steps_range _ (by simp [exSteps]) exSteps_ok.1 exSteps_ok.2 (by simp)
example : linSteps (-2 ^ 63) (fin 45000) (toSteps exSteps) = .ok 50 := by decide +kernel

/-- At the knots: if the scaled reading `avg/1000` is exactly a key, the value is the configured
    speed of that key, rounded (`math.Round`: half away from zero). -/
theorem C06_steps_at_knots (indef : Int) {ks : List (Int × ℚ)}
    (hb : ∀ p ∈ ks, |p.1| ≤ 2 ^ 50 ∧ Rep64 p.2 ∧ 0 ≤ p.2 ∧ p.2 ≤ 255)
    (hkeys : ks.Pairwise (fun a b => a.1 < b.1)) {avg : F64} {k : Int} {v : ℚ}
    (hmem : (k, v) ∈ ks) (havg : avg / ofInt 1000 = fin (k : ℚ)) :
    linSteps indef avg (toSteps ks) = .ok (roundRat v) := by
  have hok := stepsOK_of hb hkeys
  match ks, hmem, hok with
  | (x, y) :: rest, hmem, hok =>
    rw [linSteps_fin indef x y rest hok havg, interpQ_at_key true x y rest hok hmem]

example : linSteps (-2 ^ 63) (fin ((50 * 1000 : Int) : ℚ)) (toSteps exSteps)
    = .ok (roundRat 100) :=
  C06_steps_at_knots _ exSteps_ok.1 exSteps_ok.2 (by simp [exSteps]) (div1000_exact (by norm_num))
example : roundRat 100 = 100 := by simpa using roundRat_intCast 100

/-- Below (or at) the first key the value is the rounded first speed; at or above the last key it
    is the rounded last speed. Also for `-Inf` / `+Inf`. -/
theorem C06_steps_outside (indef : Int) {x : Int} {y : ℚ} {rest : List (Int × ℚ)}
    (hb : ∀ p ∈ (x, y) :: rest, |p.1| ≤ 2 ^ 50 ∧ Rep64 p.2 ∧ 0 ≤ p.2 ∧ p.2 ≤ 255)
    (hkeys : ((x, y) :: rest).Pairwise (fun a b => a.1 < b.1)) {avg : F64} :
    (∀ q : ℚ, avg / ofInt 1000 = fin q → q ≤ x →
      linSteps indef avg (toSteps ((x, y) :: rest)) = .ok (roundRat y)) ∧
    (∀ q : ℚ, avg / ofInt 1000 = fin q → (∀ p ∈ (x, y) :: rest, (p.1 : ℚ) ≤ q) →
      linSteps indef avg (toSteps ((x, y) :: rest)) = .ok (roundRat (lastY ((x, y) :: rest)))) ∧
    (avg = inf true → linSteps indef avg (toSteps ((x, y) :: rest)) = .ok (roundRat y)) ∧
    (avg = inf false →
      linSteps indef avg (toSteps ((x, y) :: rest)) = .ok (roundRat (lastY ((x, y) :: rest)))) := by
  have hok := stepsOK_of hb hkeys
  have hl := lastY_ok x y rest hok
  refine ⟨?_, ?_, ?_, ?_⟩
  · intro q hq hqx
    rw [linSteps_fin indef x y rest hok hq, interpQ_below x y rest hqx]
  · intro q hq hall
    rw [linSteps_fin indef x y rest hok hq, interpQ_above true x y rest hok hall]
  · rintro rfl
    have : inf true / ofInt 1000 = inf true := by rw [ofInt_1000]; rfl
    exact (linSteps_of_value indef _ (x, y) rest
      (by rw [this]; exact interpLoop_neg_inf x y rest hok) hok.head.2.nonneg hok.head.2.le255).1
  · rintro rfl
    have : inf false / ofInt 1000 = inf false := by rw [ofInt_1000]; rfl
    exact (linSteps_of_value indef _ (x, y) rest
      (by rw [this]; exact interpLoop_pos_inf true x y rest hok) hl.nonneg hl.le255).1

example : linSteps (-2 ^ 63) (inf false) (toSteps exSteps) = .ok (roundRat 255) :=
  (C06_steps_outside _ exSteps_ok.1 exSteps_ok.2).2.2.2 rfl

/-- Between two adjacent steps with integer speeds `a`, `b` (`k ≤ avg/1000 < k'`) the value lies
    between them, in whichever order they are. -/
theorem C06_steps_between (indef : Int) (l1 l2 : List (Int × ℚ)) (k k' a b : Int)
    (hb : ∀ p ∈ l1 ++ (k, (a : ℚ)) :: (k', (b : ℚ)) :: l2,
      |p.1| ≤ 2 ^ 50 ∧ Rep64 p.2 ∧ 0 ≤ p.2 ∧ p.2 ≤ 255)
    (hkeys : (l1 ++ (k, (a : ℚ)) :: (k', (b : ℚ)) :: l2).Pairwise (fun a b => a.1 < b.1))
    {avg : F64} {q : ℚ} (hq : avg / ofInt 1000 = fin q) (hq1 : (k : ℚ) ≤ q) (hq2 : q < k') :
    ∃ w, linSteps indef avg (toSteps (l1 ++ (k, (a : ℚ)) :: (k', (b : ℚ)) :: l2)) = .ok w ∧
      min a b ≤ w ∧ w ≤ max a b :=
  linSteps_between_int indef l1 l2 k k' a b (stepsOK_of hb hkeys) hq hq1 hq2

example : ∃ w, linSteps (-2 ^ 63) (fin ((45 * 1000 : Int) : ℚ))
      (toSteps ([] ++ (40, ((0 : Int) : ℚ)) :: (50, ((100 : Int) : ℚ)) :: [(60, 255)])) = .ok w ∧
      min 0 100 ≤ w ∧ w ≤ max 0 100 :=
  C06_steps_between _ [] [(60, 255)] 40 50 0 100
    (by simpa [exSteps] using exSteps_ok.1) (by simp)
    (div1000_exact (by norm_num)) (by norm_num) (by norm_num)

/-- An empty (non-nil) step map makes the Go code index `xValues[-1]`: panic (subject of C11). -/
theorem C06_steps_empty (indef : Int) (avg : F64) :
    linSteps indef avg [] = .panic "index-out-of-range" := linSteps_nil indef avg

/-! ## 3. function curves over member values in 0..255 -/

theorem C06_fn_sum (indef : Int) {vs : List Int} (h : ∀ v ∈ vs, 0 ≤ v ∧ v ≤ 255)
    (hl : vs.length ≤ 2 ^ 40) : evalFn indef "sum" vs = .ok (min 255 vs.sum) :=
  evalFn_sum indef h hl

example : evalFn (-2 ^ 63) "sum" [100, 100, 100] = .ok 255 :=
  C06_fn_sum _ (by intro v hv; simp at hv; omega) (by norm_num)

theorem C06_fn_diff (indef : Int) :
    evalFn indef "difference" [] = .ok 0 ∧
    ∀ (v : Int) (vs : List Int), (∀ w ∈ v :: vs, 0 ≤ w ∧ w ≤ 255) → (v :: vs).length ≤ 2 ^ 40 →
      evalFn indef "difference" (v :: vs) = .ok (max 0 (v - vs.sum)) :=
  ⟨evalFn_difference_nil indef, fun _ _ h hl => evalFn_difference indef h hl⟩

example : evalFn (-2 ^ 63) "difference" [200, 50, 30] = .ok 120 :=
  (C06_fn_diff _).2 200 [50, 30] (by intro v hv; simp at hv; omega) (by norm_num)

/-- delta = greatest member − least member. -/
theorem C06_fn_delta (indef : Int) {vs : List Int} (h : ∀ v ∈ vs, 0 ≤ v ∧ v ≤ 255) (hne : vs ≠ []) :
    ∃ M m, IsMaxOf vs M ∧ IsMinOf vs m ∧ evalFn indef "delta" vs = .ok (M - m) := by
  match vs, hne, h with
  | v :: rest, _, h =>
    exact ⟨_, _, foldl_max_head_spec v rest, foldl_min_head_spec v rest, evalFn_delta indef h⟩

example : ∃ M m, IsMaxOf [30, 200, 50] M ∧ IsMinOf [30, 200, 50] m ∧
    evalFn (-2 ^ 63) "delta" [30, 200, 50] = .ok (M - m) :=
  C06_fn_delta _ (by intro v hv; simp at hv; omega) (by simp)

/-- minimum = least member (255 for no members). -/
theorem C06_fn_min (indef : Int) {vs : List Int} (h : ∀ v ∈ vs, 0 ≤ v ∧ v ≤ 255) :
    (vs = [] → evalFn indef "minimum" vs = .ok 255) ∧
    (vs ≠ [] → ∃ m, IsMinOf vs m ∧ evalFn indef "minimum" vs = .ok m) := by
  constructor
  · rintro rfl; exact evalFn_minimum indef h
  · intro hne
    exact ⟨_, foldl_min_spec hne (fun v hv => (h v hv).2), evalFn_minimum indef h⟩

/-- maximum = greatest member (0 for no members). -/
theorem C06_fn_max (indef : Int) {vs : List Int} (h : ∀ v ∈ vs, 0 ≤ v ∧ v ≤ 255) :
    (vs = [] → evalFn indef "maximum" vs = .ok 0) ∧
    (vs ≠ [] → ∃ M, IsMaxOf vs M ∧ evalFn indef "maximum" vs = .ok M) := by
  constructor
  · rintro rfl; exact evalFn_maximum indef h
  · intro hne
    exact ⟨_, foldl_max_spec hne (fun v hv => (h v hv).1), evalFn_maximum indef h⟩

example : ∃ m, IsMinOf [30, 200] m ∧ evalFn (-2 ^ 63) "minimum" [30, 200] = .ok m :=
  (C06_fn_min _ (by intro v hv; simp at hv; omega)).2 (by simp)
example : ∃ M, IsMaxOf [30, 200] M ∧ evalFn (-2 ^ 63) "maximum" [30, 200] = .ok M :=
  (C06_fn_max _ (by intro v hv; simp at hv; omega)).2 (by simp)

/-- average = integer mean (Go `/` on non-negative ints = floor). -/
theorem C06_fn_avg (indef : Int) {vs : List Int} (h : ∀ v ∈ vs, 0 ≤ v ∧ v ≤ 255)
    (hl : vs.length ≤ 2 ^ 40) (hne : vs ≠ []) :
    evalFn indef "average" vs = .ok (vs.sum / (vs.length : Int)) :=
  evalFn_average indef h hl hne

example : evalFn (-2 ^ 63) "average" [100, 101, 101] = .ok 100 :=
  C06_fn_avg _ (by intro v hv; simp at hv; omega) (by norm_num) (by simp)

/-- Range of all six function types over at least one member. -/
theorem C06_fn_range (indef : Int) {ty : String} (hty : IsFnType ty) {vs : List Int}
    (h : ∀ v ∈ vs, 0 ≤ v ∧ v ≤ 255) (hl : vs.length ≤ 2 ^ 40) (hne : vs ≠ []) :
    ∃ v, evalFn indef ty vs = .ok v ∧ 0 ≤ v ∧ v ≤ 255 :=
  evalFn_range indef hty h hl hne

example : ∃ v, evalFn (-2 ^ 63) "delta" [3, 250] = .ok v ∧ 0 ≤ v ∧ v ≤ 255 :=
  C06_fn_range _ (by unfold IsFnType; simp) (by intro v hv; simp at hv; omega) (by norm_num) (by simp)

/-- Without members, `delta` indexes `values[0]` and `average` divides by zero (subject of C11). -/
theorem C06_fn_empty_panics (indef : Int) :
    evalFn indef "delta" [] = .panic "index-out-of-range" ∧
    evalFn indef "average" [] = .panic "integer-divide-by-zero" :=
  ⟨evalFn_delta_nil indef, evalFn_average_nil indef⟩

/-! ## 4. compositionality -/

/-- A function curve evaluates to `evalFn` of the outcomes of its members … -/
theorem C06_nested (indef : Int) (sensors : SensorTable) (now : Int) (fuel : Nat)
    (tbl : CurveTable) (id : String) (c : Curve) (ty : String) (members : List String)
    (hget : tbl.get? id = some c) (hcfg : c.cfg = .function ty members) :
    (evalCurve indef sensors now (fuel + 1) tbl id).2 =
      (evalMembers indef sensors now fuel tbl members).2.bind (evalFn indef ty) :=
  evalCurve_function indef sensors now fuel tbl id c ty members hget hcfg

/-- … which are evaluated in order (any depth, via the fuel), each on the table left by the
    previous one; the first failing member aborts. -/
theorem C06_nested_members (indef : Int) (sensors : SensorTable) (now : Int) (fuel : Nat)
    (tbl : CurveTable) :
    evalMembers indef sensors now fuel tbl [] = (tbl, .ok []) ∧
    ∀ (m : String) (ms : List String),
      (evalMembers indef sensors now fuel tbl (m :: ms)).2 =
        (evalCurve indef sensors now fuel tbl m).2.bind (fun v =>
          (evalMembers indef sensors now fuel (evalCurve indef sensors now fuel tbl m).1 ms).2.bind
            (fun vs => .ok (v :: vs))) :=
  ⟨evalMembers_nil indef sensors now fuel tbl,
   fun m ms => evalMembers_cons indef sensors now fuel tbl m ms⟩

/-- **Every well-formed curve tree evaluates to a value in 0..255.**
    `WFCurve sensors (cfgOf tbl) fuel id` (defined in `Proofs/CurveTree.lean`): `id` is, with depth
    at most `fuel`, a tree whose leaves are linear curves satisfying the hypotheses of
    `C06_linear_range` / `C06_steps_range` with an existing sensor whose average is not NaN, and whose
    inner nodes are function curves of the six types with 1..2^40 members.
    No distinctness assumption on the table ids is needed; stored `value`s and PID memories are
    arbitrary. Evaluation leaves every curve's configuration untouched. -/
theorem C06_tree_range (indef : Int) (sensors : SensorTable) (now : Int) (fuel : Nat)
    (tbl : CurveTable) (id : String) (h : WFCurve sensors (cfgOf tbl) fuel id) :
    (∃ v, (evalCurve indef sensors now fuel tbl id).2 = .ok v ∧ 0 ≤ v ∧ v ≤ 255) ∧
    cfgOf (evalCurve indef sensors now fuel tbl id).1 = cfgOf tbl :=
  evalCurve_good indef sensors now fuel tbl id h

/-- non-vacuity: `max(sum(a, b), a)` over two linear leaves, depth 3. -/
def exTable : CurveTable :=
  [ { id := "a", cfg := .linear "s" 40 60 none },
    { id := "b", cfg := .linear "s" 0 0 (some (toSteps exSteps)) },
    { id := "f", cfg := .function "sum" ["a", "b"] },
    { id := "g", cfg := .function "maximum" ["f", "a"] } ]
def exSensors : SensorTable := [("s", { avg := fin 45000, value := .ok (fin 45000) })]

theorem exTable_wf : WFCurve exSensors (cfgOf exTable) 3 "g" := by
  have hs : exSensors.get? "s" = some { avg := fin 45000, value := .ok (fin 45000) } := by
    simp [SensorTable.get?, exSensors]
  have ha : ∀ n, WFCurve exSensors (cfgOf exTable) (n + 1) "a" := fun n =>
    .minmax (sensor := "s") (mn := 40) (mx := 60) (by simp [cfgOf, CurveTable.get?, exTable])
      (by norm_num) (by norm_num) hs (by simp)
  have hb : WFCurve exSensors (cfgOf exTable) 1 "b" :=
    .steps (sensor := "s") (mn := 0) (mx := 0) (x := 40) (y := 0) (rest := [(50, 100), (60, 255)])
      (by simp [cfgOf, CurveTable.get?, exTable, exSteps])
      (stepsOK_of exSteps_ok.1 exSteps_ok.2) hs (by simp)
  have hf : WFCurve exSensors (cfgOf exTable) 2 "f" :=
    .fn (ty := "sum") (members := ["a", "b"]) (by simp [cfgOf, CurveTable.get?, exTable])
      (by unfold IsFnType; simp) (by simp) (by norm_num)
      (by intro m hm; simp at hm; rcases hm with rfl | rfl; exact ha 0; exact hb)
  exact .fn (ty := "maximum") (members := ["f", "a"]) (by simp [cfgOf, CurveTable.get?, exTable])
    (by unfold IsFnType; simp) (by simp) (by norm_num)
    (by intro m hm; simp at hm; rcases hm with rfl | rfl; exact hf; exact ha 1)

example : ∃ v, (evalCurve (-2 ^ 63) exSensors 0 3 exTable "g").2 = .ok v ∧ 0 ≤ v ∧ v ≤ 255 :=
  (C06_tree_range _ _ _ _ _ _ exTable_wf).1

/-! ## 5. PID curve -/

/-- By definition the PID curve returns `int(Coerce(loopValue, 0, 1) * 255)` with `loopValue` from
    `util.PidLoop.Loop(setPoint, measured/1000)` on the curve's own memory. -/
theorem C06_pid_def (indef : Int) (sensors : SensorTable) (now : Int) (fuel : Nat)
    (tbl : CurveTable) (id : String) (c : Curve) (sensor : String) (setPoint measured : F64)
    (sv : SensorView) (hget : tbl.get? id = some c) (hcfg : c.cfg = .pid sensor setPoint)
    (hs : sensors.get? sensor = some sv) (hv : sv.value = .ok measured) :
    (evalCurve indef sensors now (fuel + 1) tbl id).2
      = .ok (toInt indef (coerce (pidLoop c.pid setPoint (measured / ofRat 1000) now).2
          (ofInt 0) (ofInt 1) * ofInt 255)) :=
  evalCurve_pid indef sensors now fuel tbl id c sensor setPoint measured sv hget hcfg hs hv

/-- In range as soon as the loop value is not NaN (±Inf are clamped by `Coerce`). -/
theorem C06_pid_range (indef : Int) {loopValue : F64} (h : loopValue ≠ nan) :
    0 ≤ toInt indef (coerce loopValue (ofInt 0) (ofInt 1) * ofInt 255) ∧
    toInt indef (coerce loopValue (ofInt 0) (ofInt 1) * ofInt 255) ≤ 255 :=
  pidValue_range indef h

example : 0 ≤ toInt (-2 ^ 63) (coerce (fin (1/2)) (ofInt 0) (ofInt 1) * ofInt 255) ∧
    toInt (-2 ^ 63) (coerce (fin (1/2)) (ofInt 0) (ofInt 1) * ofInt 255) ≤ 255 :=
  C06_pid_range _ (by simp)

/-- `Coerce` does not stop NaN: a NaN loop value yields the implementation-defined `int(NaN)`. -/
theorem C06_pid_nan (indef : Int) :
    coerce nan (ofInt 0) (ofInt 1) = nan ∧
    toInt indef (coerce nan (ofInt 0) (ofInt 1) * ofInt 255) = indef :=
  ⟨coerce_nan _ _, pidValue_nan indef⟩

/-- `x` is a finite float64 value. -/
def IsFiniteF64 (x : F64) : Prop := ∃ q, x = fin q ∧ Rep64 q ∧ |q| < f64Huge

/-- The unconditional claim of C06 for the PID curve: finite gains, finite set point, finite
    readings, any (monotone) clock ⇒ two successive evaluations of a fresh PID curve both return a
    value in 0..255. -/
def C06_pid_range_statement : Prop :=
  ∀ (indef : Int) (p i d setPoint m₁ m₂ : F64) (now₁ now₂ : Int),
    IsFiniteF64 p → IsFiniteF64 i → IsFiniteF64 d → IsFiniteF64 setPoint →
    IsFiniteF64 m₁ → IsFiniteF64 m₂ → now₁ ≤ now₂ →
    ∃ v₁ v₂, pidTwice indef p i d setPoint m₁ m₂ now₁ now₂ = (.ok v₁, .ok v₂) ∧
      (0 ≤ v₁ ∧ v₁ ≤ 255) ∧ (0 ≤ v₂ ∧ v₂ ≤ 255)

theorem isFiniteF64_int {n : Int} (h : |n| ≤ 2 ^ 53) : IsFiniteF64 (fin (n : ℚ)) :=
  ⟨_, rfl, rep64_intCast n h, lt_of_le_of_lt (intCast_abs_le_pow2_1023 h) pow2_1023_lt_f64Huge⟩

theorem isFiniteF64_pow2_1000 : IsFiniteF64 (fin (pow2 1000)) ∧ IsFiniteF64 (fin (-pow2 1000)) := by
  have hlt : pow2 1000 < f64Huge := pow2_lt (by norm_num)
  have hr := rep64_pow2 1000 (by norm_num)
  refine ⟨⟨_, rfl, hr, ?_⟩, ⟨_, rfl, rep64_neg hr, ?_⟩⟩
  · rw [abs_of_pos (pow2_pos _)]; exact hlt
  · rw [abs_neg, abs_of_pos (pow2_pos _)]; exact hlt

/-- Witness (a): gains 1/1/1, set point 50 °C, reading 40 °C, both evaluations at the SAME clock
    reading: `dt = 0`, derivative `0/0 = NaN`, the curve returns `int(NaN)`. -/
theorem C06_pid_witness_same_clock (indef : Int) :
    pidTwice indef (fin 1) (fin 1) (fin 1) (fin 50) (fin 40000) (fin 40000) 0 0
      = (.ok 0, .ok indef) := by
  rw [pidTwice_eq]
  have : pidTwiceLoop (fin 1) (fin 1) (fin 1) (fin 50) (fin 40000) (fin 40000) 0 0
      = (fin 0, nan) := by decide +kernel
  rw [this]
  simp only [pidValue_nan]
  have h0 : pidValue indef (fin 0) = 0 := by
    have := pidValue_range indef (lv := fin 0) (by simp)
    unfold pidValue at *
    rw [ofInt_zero, ofInt_one, ofInt_255, coerce_id (le_refl _) (by norm_num), mul_fin_fin,
      zero_mul, ofRat_zero]
    simpa using toInt_intCast indef (n := 0) (by norm_num) (by norm_num)
  rw [h0]

/-- Witness (b): `P = 2^1000`, `I = -2^1000`, `D = 0`, reading `-2^1000` m°, evaluations one second
    apart: `P*e = +Inf`, `I*∫e = -Inf`, the sum is NaN, the curve returns `int(NaN)`. -/
theorem C06_pid_witness_inf_minus_inf (indef : Int) :
    pidTwice indef (fin (pow2 1000)) (fin (-pow2 1000)) (fin 0) (fin 50) (fin (-pow2 1000))
      (fin (-pow2 1000)) 0 1000000000 = (.ok 0, .ok indef) := by
  rw [pidTwice_eq]
  have : pidTwiceLoop (fin (pow2 1000)) (fin (-pow2 1000)) (fin 0) (fin 50) (fin (-pow2 1000))
      (fin (-pow2 1000)) 0 1000000000 = (fin 0, nan) := by decide +kernel
  rw [this]
  simp only [pidValue_nan]
  have h0 : pidValue indef (fin 0) = 0 := by
    unfold pidValue
    rw [ofInt_zero, ofInt_one, ofInt_255, coerce_id (le_refl _) (by norm_num), mul_fin_fin,
      zero_mul, ofRat_zero]
    simpa using toInt_intCast indef (n := 0) (by norm_num) (by norm_num)
  rw [h0]

/-- **The unconditional PID range claim is false** (amd64 `int(NaN) = -2^63`). -/
theorem C06_pid_refuted : ¬ C06_pid_range_statement := by
  intro h
  have f1 : IsFiniteF64 (fin 1) := by simpa using isFiniteF64_int (n := 1) (by norm_num)
  have f50 : IsFiniteF64 (fin 50) := by simpa using isFiniteF64_int (n := 50) (by norm_num)
  have fm : IsFiniteF64 (fin 40000) := by simpa using isFiniteF64_int (n := 40000) (by norm_num)
  obtain ⟨v₁, v₂, he, _, hv2⟩ := h (-2 ^ 63) (fin 1) (fin 1) (fin 1) (fin 50) (fin 40000) (fin 40000)
    0 0 f1 f1 f1 f50 fm fm (le_refl _)
  rw [C06_pid_witness_same_clock] at he
  simp only [Prod.mk.injEq, Res.ok.injEq] at he
  omega

/-- The same refutation from witness (b), where the clock advances by one second. -/
theorem C06_pid_refuted' : ¬ C06_pid_range_statement := by
  intro h
  have f0 : IsFiniteF64 (fin 0) := by simpa using isFiniteF64_int (n := 0) (by norm_num)
  have f50 : IsFiniteF64 (fin 50) := by simpa using isFiniteF64_int (n := 50) (by norm_num)
  obtain ⟨v₁, v₂, he, _, hv2⟩ := h (-2 ^ 63) (fin (pow2 1000)) (fin (-pow2 1000)) (fin 0) (fin 50)
    (fin (-pow2 1000)) (fin (-pow2 1000)) 0 1000000000 isFiniteF64_pow2_1000.1
    isFiniteF64_pow2_1000.2 f0 f50 isFiniteF64_pow2_1000.2 isFiniteF64_pow2_1000.2 (by norm_num)
  rw [C06_pid_witness_inf_minus_inf] at he
  simp only [Prod.mk.injEq, Res.ok.injEq] at he
  omega

end Fan2go

/-! ### audit -/
#print axioms Fan2go.C06_linear_range
#print axioms Fan2go.C06_linear_ends
#print axioms Fan2go.C06_linear_ends_exact
#print axioms Fan2go.C06_linear_mid
#print axioms Fan2go.C06_linear_close
#print axioms Fan2go.C06_linear_nan
#print axioms Fan2go.C06_steps_range
#print axioms Fan2go.C06_steps_at_knots
#print axioms Fan2go.C06_steps_outside
#print axioms Fan2go.C06_steps_between
#print axioms Fan2go.C06_steps_empty
#print axioms Fan2go.C06_fn_sum
#print axioms Fan2go.C06_fn_diff
#print axioms Fan2go.C06_fn_delta
#print axioms Fan2go.C06_fn_min
#print axioms Fan2go.C06_fn_max
#print axioms Fan2go.C06_fn_avg
#print axioms Fan2go.C06_fn_range
#print axioms Fan2go.C06_fn_empty_panics
#print axioms Fan2go.C06_nested
#print axioms Fan2go.C06_nested_members
#print axioms Fan2go.C06_tree_range
#print axioms Fan2go.C06_pid_def
#print axioms Fan2go.C06_pid_range
#print axioms Fan2go.C06_pid_nan
#print axioms Fan2go.C06_pid_witness_same_clock
#print axioms Fan2go.C06_pid_witness_inf_minus_inf
#print axioms Fan2go.C06_pid_refuted
#print axioms Fan2go.C06_pid_refuted'
