/-
  C12 — the fan receives the nearest value it supports.
  Property theorems only; proofs are in Proofs/FindClosest.lean.
-/
import Fan2go.Proofs.FindClosest
import Fan2go.Spec.Controller
namespace Fan2go

/-- a pairwise-increasing list gives a strictly sorted array -/
theorem strictSorted_of_pairwise (l : List Int) (h : l.Pairwise (· < ·)) : StrictSorted l.toArray := by
  intro i j hij hj
  have hj' : j < l.length := by simpa using hj
  have hi' : i < l.length := by omega
  have := (List.pairwise_iff_getElem.mp h) i j hi' hj' hij
  simpa [hi', hj'] using this

/-- `FindClosest` returns an element nearest to the request (either neighbour when equidistant). -/
theorem C12_findClosest_nearest (arr : Array Int) (t : Int) (hne : arr.size ≠ 0) (hs : StrictSorted arr) :
    ∃ r, findClosest t arr = .ok r ∧ Nearest arr t r :=
  findClosest_nearest arr t hne hs

/-- a request that is itself a supported input is applied exactly -/
theorem C12_exact (arr : Array Int) (hne : arr.size ≠ 0) (hs : StrictSorted arr) (i : Nat) (hi : i < arr.size) :
    findClosest arr[i]! arr = .ok arr[i]! :=
  findClosest_exact arr hne hs i hi

/-- requests below the smallest / above the largest supported input use that input -/
theorem C12_saturates (arr : Array Int) (t : Int) (hne : arr.size ≠ 0) :
    (t ≤ arr[0]! → findClosest t arr = .ok arr[0]!) ∧
    (¬ t ≤ arr[0]! → t ≥ arr[arr.size - 1]! → findClosest t arr = .ok arr[arr.size - 1]!) :=
  ⟨fun h => findClosest_low hne h, fun h1 h => findClosest_high hne h1 h⟩

/-- the binary search never leaves the slice and never falls through: it always returns an element -/
theorem C12_total (arr : Array Int) (t : Int) (hne : arr.size ≠ 0) :
    ∃ r, findClosest t arr = .ok r ∧ ∃ i, i < arr.size ∧ arr[i]! = r :=
  findClosest_mem arr t hne

/-- the supported inputs are the first input of each run of consecutive equal outputs
    (for outputs ≠ -1, in particular 0..255), strictly increasing, non-empty for a non-empty map -/
theorem C12_distinct_spec (m : List (Int × Int)) (hk : m.Pairwise (fun a b => a.1 < b.1))
    (hv : ∀ p ∈ m, p.2 ≠ -1) :
    (extractKeys m).Pairwise (· < ·) ∧
    (∀ k ∈ extractKeys m, ∃ v, (k, v) ∈ m) ∧
    (m ≠ [] → extractKeys m ≠ []) ∧
    ((extractKeys m).head? = m.head?.map Prod.fst) ∧
    (∀ pre post k0 v0 k v, m = pre ++ [(k0, v0), (k, v)] ++ post → (k ∈ extractKeys m ↔ v ≠ v0)) :=
  ⟨extractKeys_sorted m hk, extractKeys_sub m, extractKeys_ne_nil m, extractKeys_head? m,
   fun pre post k0 v0 k v hm => extractKeys_runs m pre post k0 v0 k v hk hv hm⟩

/-- the sentinel `-1` in `ExtractKeysWithDistinctValues` is why outputs must not be -1 -/
theorem C12_sentinel : extractKeys [(0, -1), (1, -1)] = [0, 1] ∧ extractKeys [(0, 5), (1, 5)] = [0] :=
  extractKeys_sentinel_counterexample

/-- Composition as the controller wires it (`setPwm`): for a well-formed PWM map the value chosen for
    a request `t` is the map's output for a supported input nearest to `t`. -/
theorem C12_written (c : Ctl) (m : List (Int × Int)) (t : Int)
    (hm : c.pwmMap = some m) (hok : MapOk m) (hd : c.distinct = (extractKeys m).toArray) :
    ∃ k, closestDistinct c t = .ok k ∧ Nearest c.distinct t k ∧ applyPwmMapping c k = mapGet m k := by
  obtain ⟨hne, hk, _⟩ := hok
  have hsorted := extractKeys_sorted m hk
  have hne' : (extractKeys m) ≠ [] := extractKeys_ne_nil m hne
  have hsz : c.distinct.size ≠ 0 := by
    rw [hd]; simpa using hne'
  have hss : StrictSorted c.distinct := by rw [hd]; exact strictSorted_of_pairwise _ hsorted
  obtain ⟨r, hr, hn⟩ := findClosest_nearest c.distinct t hsz hss
  exact ⟨r, hr, hn, by simp [applyPwmMapping, hm]⟩

/-- non-vacuity: a sparse non-monotonic map -/
example : MapOk [(0, 0), (10, 40), (20, 40), (30, 10), (255, 255)] := by
  refine ⟨by simp, by decide, ?_⟩
  intro p hp; simp at hp; rcases hp with h | h | h | h | h <;> subst h <;> decide

example : extractKeys [(0, 0), (10, 40), (20, 40), (30, 10), (255, 255)] = [0, 10, 30, 255] := by decide

end Fan2go

#print axioms Fan2go.C12_findClosest_nearest
#print axioms Fan2go.C12_written
