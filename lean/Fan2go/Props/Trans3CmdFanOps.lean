/-
  Translation tie, third generation, fan level (command fans): the record `Generated3.CmdFanOps` instantiated on the model
  world, and (Props/Trans3CmdFan.lean) the theorems that for a command fan the fan-level primitives `modelOps` plugs into
  the controller are what the translated `fans.CmdFan` methods compute.  Core Lean only.

  A command fan talks to its device through three configured commands. Here the executables are the tokens `getpwm`,
  `getrpm`, `setpwm`; the text a read command prints is a token (`pwm-output` / `rpm-output`) that `strconv.ParseFloat`
  turns into the float `xp` / `xr` the device reports; the single argument of the set command is the placeholder `%pwm%`.
  `v` is the value the theorem about `SetPwm` is stated for: `strconv.Itoa v` is the token `#val`, every other number is
  `#other`, and the set command only writes when its argument list is exactly `[#val]` — so the theorem also says that the
  command receives the decimal text of the requested value in place of the placeholder.
-/
import Fan2go.Props.Trans3FanOps
namespace Fan2go
open F64

def cmdReadTok (m : ReadMode) (tok : String) : String × Option String :=
  match m with
  | .ok => (tok, none)
  | _ => ("", some "read")

/-- `util.SafeCmdExecution(exe, args, timeout)` as a command fan sees it -/
def cmdExec (v : Int) (exe : String) (args : Array String) (w : World) : Res (String × Option String) × World :=
  if exe = "getpwm" then (.ok (cmdReadTok w.dev.pwmRead "pwm-output"), w)
  else if exe = "getrpm" then (.ok (cmdReadTok w.dev.rpmRead "rpm-output"), w)
  else if exe = "setpwm" then
    (if args = #["#val"] then
      (match fanSetPwm w.dev v with | (d', r) => (.ok ("", t3ErrOf r), { w with dev := d' }))
     else (.ok ("", some "bad-arguments"), w))
  else (.ok ("", some "cannot execute"), w)

/-- the record of operations of a `CmdFan` over the model world. `xp`, `xr`: what the device prints for its PWM and RPM;
    `v`: the value whose decimal text is the token `#val` (see the head of the file). A `getRpm` command is configured
    iff the device has an RPM input; a `getPwm` command is always configured (the model's command fans can be read). -/
def cmdFanOps (xp xr : F64) (v : Int) : Generated3.CmdFanOps World where
  safeCmdExecution := fun exe args _ w => cmdExec v exe args w
  parseFloat := fun s _ w =>
    (.ok (if s = "pwm-output" then (xp, none) else if s = "rpm-output" then (xr, none)
          else (F64.ofInt 0, some "parse")), w)
  replaceAll := fun s old new w => (.ok (if s = old then new else s), w)
  itoa := fun x w => (.ok (if x = v then "#val" else "#other"), w)
  get_Config_Cmd_GetRpm := fun w => (.ok (if w.dev.hasRpm then some () else none), w)
  get_Config_Cmd_GetPwm := fun w => (.ok (some ()), w)
  get_rpmConf_Exec := fun w => (.ok "getrpm", w)
  get_rpmConf_Args := fun w => (.ok #[], w)
  get_pwmConf_Exec := fun w => (.ok "getpwm", w)
  get_pwmConf_Args := fun w => (.ok #[], w)
  get_setConf_Exec := fun w => (.ok "setpwm", w)
  get_setConf_Args := fun w => (.ok #["%pwm%"], w)
  get_Config_NeverStop := fun w => (.ok w.fan.neverStop, w)
  -- `CmdFan.Pwm` caches the last reading for the REST API only: not part of the model
  get_Pwm := fun w => (.ok w.dev.pwm, w)
  set_Pwm := fun _ w => (.ok (), w)
  -- `CmdFan.Rpm` is the fan's RPM "average"
  get_Rpm := fun w => (.ok w.fan.rpmInt, w)
  set_Rpm := fun x w => (.ok (), { w with fan := { w.fan with rpmInt := x } })

end Fan2go
