/-
  C16  With parallel initialisation disabled, fans are analysed one at a time
       (internal/controller/controller.go: `InitializationSequenceMutex`, `RunInitializationSequence`,
        `computePwmMap`)

  Model (Model/InitLock.lean): any number of processes – one per fan controller – each running a
  straight-line program over {lock, unlock, sweepStep, measureStep, other}, one non-re-entrant mutex,
  interleaving semantics; a schedule is the list of process ids in the order in which they step.
  `analysing progs s p`: process `p` has executed its first analysis step and not yet its last one.

  Tie to the code: the programs are not hand-written. `programOfN k seq` translates the call sequences
  that vlib/factgen.py REGENERATES from the current controller.go on every check run
  (`Fan2go.Generated.sequences`; `seqInit` = `RunInitializationSequence`, `seqMap` = `computePwmMap`),
  with `k` iterations of the measurement loop; `C16_generated_program_ok` evaluates the coverage check on
  them. If the lock is moved, dropped, or released before the measurement loop, the regenerated sequence
  changes and that theorem (and `fact_init_locked` / `fact_map_locked`) no longer compiles.
  The `su.together` stream (go/harness/startup.go) starts 2..4 REAL controllers concurrently with random
  delays and reports whether two analysis intervals overlapped.

  ASSUMED: `sync.Mutex` provides mutual exclusion as modelled (lock enabled only when free); every fan
  controller uses the one package-level `InitializationSequenceMutex` (it is a package variable).
-/
import Fan2go.Proofs.InitLock
import Fan2go.Proofs.Startup
import Fan2go.Props.Facts
namespace Fan2go
open InitLock

/-! ### the reduction, proved once for any number of processes and any program shapes -/

/-- If in every program the analysis lies inside one lock … unlock span (`covered`), then in no reachable
    state – for every number of processes (`ι` arbitrary, e.g. `Fin N`) and every schedule – are two
    different processes analysing. -/
theorem C16_reduction {ι : Type} [DecidableEq ι] (progs : ι → List Instr)
    (hc : ∀ p, covered (progs p) = true) :
    ∀ s, Reachable progs s → ∀ p q, p ≠ q → ¬ (analysing progs s p = true ∧ analysing progs s q = true) :=
  fun s hr p q hne => exclusion progs hc s hr p q hne

/-- the same in terms of schedules, with the number of processes explicit -/
theorem C16_mutex_excludes (N : Nat) (progs : Fin N → List Instr) (hc : ∀ p, covered (progs p) = true)
    (sched : List (Fin N)) (s : State (Fin N)) (he : exec progs State.init sched = some s)
    (p q : Fin N) (hne : p ≠ q) :
    ¬ (analysing progs s p = true ∧ analysing progs s q = true) :=
  exclusion progs hc s ⟨sched, he⟩ p q hne

/-- whenever some process is analysing, the mutex is locked -/
theorem C16_analysing_locked {ι : Type} [DecidableEq ι] (progs : ι → List Instr)
    (hc : ∀ p, covered (progs p) = true) (s : State ι) (hr : Reachable progs s) (p : ι)
    (hp : analysing progs s p = true) : s.locked = true :=
  analysing_locked progs hc s hr p hp

/-! ### the premise holds for the programs regenerated from the current source -/

/-- the regenerated `RunInitializationSequence` translates to lock, sweep, other, 3 measurement steps per
    iteration, unlock; the regenerated `computePwmMap` to lock, sweep, unlock -/
theorem C16_generated_program_shape :
    programOf seqInit = [.lock, .sweepStep, .other, .measureStep, .measureStep, .measureStep, .unlock] ∧
    programOf seqMap = [.lock, .sweepStep, .unlock] := by decide

/-- the coverage check, evaluated on the regenerated sequences (one loop iteration) -/
theorem C16_generated_program_ok :
    covered (programOf seqInit) = true ∧ covered (programOf seqMap) = true := by decide

/-- … and for every number `k` of iterations of the measurement loop -/
theorem C16_generated_program_ok_unrolled (k : Nat) :
    covered (programOfN k seqInit) = true ∧ covered (programOfN k seqMap) = true := by
  have h1 : straight (seqInit.takeWhile (· != "loop{")) = [.lock, .sweepStep, .other] := by decide
  have h2 : straight (seqInit.dropWhile (· != "loop{")) = [.measureStep, .measureStep, .measureStep] := by decide
  have h3 : deferred seqInit = [.unlock] := by decide
  have g1 : straight (seqMap.takeWhile (· != "loop{")) = [.lock, .sweepStep] := by decide
  have g2 : straight (seqMap.dropWhile (· != "loop{")) = [] := by decide
  have g3 : deferred seqMap = [.unlock] := by decide
  constructor
  · have : programOfN k seqInit =
        Instr.lock :: (([Instr.sweepStep, Instr.other] ++
          (List.replicate k [Instr.measureStep, Instr.measureStep, Instr.measureStep]).flatten) ++ [Instr.unlock]) := by
      simp [programOfN, h1, h2, h3]
    rw [this]
    apply bracket_covered
    simp [Instr.isMutexOp]
  · have : programOfN k seqMap =
        Instr.lock :: (([Instr.sweepStep] ++ (List.replicate k ([] : List Instr)).flatten) ++ [Instr.unlock]) := by
      simp [programOfN, g1, g2, g3]
    rw [this]
    apply bracket_covered
    simp [Instr.isMutexOp]

/-- Why a hwmon fan's program is `RunInitializationSequence` alone: the `computePwmMap` that `Run` calls
    after it never sweeps (model of C15), whatever was stored and configured. -/
theorem C16_no_sweep_after_init (d : Startup.FanDecl) (st : Startup.Store) :
    (Startup.computePwmMapLocked d (Startup.runInit d none st).ctl (Startup.runInit d none st).store).1.contains .sweep
      = false :=
  Startup.map_after_init_no_sweep d st

/-- With RPM data stored the only analysis of a start is the sweep inside `computePwmMap` (file / cmd fans;
    a hwmon fan whose map alone is missing): program `seqMap`. Without, a hwmon fan analyses inside
    `RunInitializationSequence` only: program `seqInit`. -/
theorem C16_where_analysis_happens (d : Startup.FanDecl) (st : Startup.Store) :
    (st.rpm = true → (Startup.start d st).measured = false) ∧
    (d.kind = .hwmon → st.rpm = false → (Startup.start d st).analysed = (Startup.runInit d none st).analysed) :=
  ⟨fun h => (Startup.analysis_with_rpm_inside_map d st h).1, Startup.hwmon_analysis_inside_init d st⟩

/-- `runFanInitializationInParallel: false`: any number of fan controllers, each running the regenerated
    `RunInitializationSequence` (with its own number of measurement iterations) or the regenerated
    `computePwmMap`: under every schedule, at no moment are two fans in their analysis. -/
theorem C16_holds {ι : Type} [DecidableEq ι] (parallel : Bool) (hp : parallel = false)
    (progs : ι → List Instr)
    (hprog : ∀ p, ∃ k, progs p = programFor parallel k seqInit ∨ progs p = programFor parallel k seqMap) :
    ∀ s, Reachable progs s → ∀ p q, p ≠ q → ¬ (analysing progs s p = true ∧ analysing progs s q = true) := by
  subst hp
  apply C16_reduction
  intro p
  obtain ⟨k, h | h⟩ := hprog p
  · rw [h]; exact (C16_generated_program_ok_unrolled k).1
  · rw [h]; exact (C16_generated_program_ok_unrolled k).2

/-! ### non-vacuity -/

/-- two fans, both running the regenerated initialisation with the mutex -/
def twoFans (parallel : Bool) : Fin 2 → List Instr := fun _ => programFor parallel 1 seqInit

/-- result of a schedule: are processes 0 and 1 both analysing afterwards? -/
def bothAnalysingAfter (progs : Fin 2 → List Instr) (sched : List (Fin 2)) : Bool :=
  match exec progs State.init sched with
  | some s => analysing progs s 0 && analysing progs s 1
  | none => false

theorem bothAnalysingAfter_spec (progs : Fin 2 → List Instr) (sched : List (Fin 2))
    (h : bothAnalysingAfter progs sched = true) :
    ∃ s, Reachable progs s ∧ analysing progs s 0 = true ∧ analysing progs s 1 = true := by
  unfold bothAnalysingAfter at h
  cases he : exec progs State.init sched with
  | none => simp [he] at h
  | some s =>
    simp [he] at h
    exact ⟨s, ⟨sched, he⟩, h.1, h.2⟩

/-- the theorem is not about stuck systems: with the mutex both fans run to completion one after the
    other, and while the first is analysing (after its sweep) the second cannot even take the lock -/
example :
    (exec (twoFans false) State.init [0, 0, 0, 0, 0, 0, 0, 1, 1, 1, 1, 1, 1, 1]).isSome = true ∧
    (match exec (twoFans false) State.init [0, 0] with
     | some s => analysing (twoFans false) s 0 && s.locked
     | none => false) = true ∧
    (exec (twoFans false) State.init [0, 0, 1]).isSome = false := by decide

/-- `Run` of a hwmon fan continues after the initialisation with the self-locking `computePwmMap`, which
    then does not sweep (`C16_no_sweep_after_init`): the whole program is still covered -/
example : covered (programOfN 1 seqInit ++ [.lock, .other, .unlock]) = true ∧
    covered (programOfN 3 seqInit ++ [.lock, .other, .unlock]) = true := by decide

/-- With the option TRUE analyses may overlap: the mutex calls are not executed, and the schedule
    "fan 0 sweeps, fan 1 sweeps" reaches a state in which both are analysing. -/
theorem C16_parallel_may_overlap (parallel : Bool) (hp : parallel = true) :
    ∃ (sched : List (Fin 2)) (s : State (Fin 2)), exec (twoFans parallel) State.init sched = some s ∧
      analysing (twoFans parallel) s 0 = true ∧ analysing (twoFans parallel) s 1 = true := by
  subst hp
  obtain ⟨s, ⟨sched, he⟩, h0, h1⟩ := bothAnalysingAfter_spec (twoFans true) [0, 1] (by decide)
  exact ⟨sched, s, he, h0, h1⟩

/-- The theorem can fail: for the shape of the code BEFORE the fix (mutex around the sweep only, the
    RPM-curve measurement outside) the coverage check fails and there is a schedule with two fans
    analysing at once: fan 0 sweeps, unlocks and starts measuring; fan 1 locks and sweeps. -/
theorem C16_old_program_overlaps :
    programOf oldSeqInit = oldProgram ∧ covered oldProgram = false ∧
    ∃ (sched : List (Fin 2)) (s : State (Fin 2)), exec (fun _ => oldProgram) State.init sched = some s ∧
      analysing (fun _ => oldProgram) s 0 = true ∧ analysing (fun _ => oldProgram) s 1 = true := by
  refine ⟨by decide, by decide, ?_⟩
  obtain ⟨s, ⟨sched, he⟩, h0, h1⟩ :=
    bothAnalysingAfter_spec (fun _ => oldProgram) [0, 0, 0, 0, 0, 1, 1] (by decide)
  exact ⟨sched, s, he, h0, h1⟩

#print axioms C16_reduction
#print axioms C16_mutex_excludes
#print axioms C16_analysing_locked
#print axioms C16_generated_program_shape
#print axioms C16_generated_program_ok
#print axioms C16_generated_program_ok_unrolled
#print axioms C16_no_sweep_after_init
#print axioms C16_where_analysis_happens
#print axioms C16_holds
#print axioms C16_parallel_may_overlap
#print axioms C16_old_program_overlaps

end Fan2go
