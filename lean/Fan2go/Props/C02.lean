/-
  C02 — A never-stop fan is never driven below its minimum, and the minimum never drops.

  `World.floor = fan.GetMinPwm() + minPwmOffset` is the effective minimum. For ALL `indef`, ALL control
  loops, ALL curve outcomes and ALL event sequences. The statements hold for every fan; they carry
  their meaning for `neverStop` fans (for other fans `getMin = 0` and the stall branch never fires).
-/
import Fan2go.Proofs.Runs
import Fan2go.Proofs.Stall
import Fan2go.Props.C01
namespace Fan2go
open F64

/-- a stalled fan: `exWorld` with an RPM input that has been reading 0 while the request sat at the
    floor 30 -/
def exStalled : World :=
  { exWorld with dev := { hasRpm := true }, ctl := { exWorld.ctl with lastSet := some 30 } }

theorem exStalled_inv : Inv exStalled where
  min_nonneg := by decide
  offset_nonneg := by decide
  floor_le_max := by decide
  max_le := by decide
  map_some := ⟨exMap, rfl, exMap_ok, rfl⟩

theorem exStalled_target (indef : Int) : computedTarget indef exStalled 0 30 0 = 30 := by
  rw [computedTarget_direct_none indef 0 30 0 rfl (le_refl _) (by norm_num)]
  exact rescale_zero indef 30 200 (by norm_num) (by norm_num) (by norm_num)

theorem exStalled_raises (indef : Int) :
    ∃ w' obs, calculateTargetPwm indef exStalled (.ok 0) 0 = (w', .ok 31, obs) ∧
      Obs.raised 30 31 ∈ obs := by
  obtain ⟨w', obs, h, -, -, -, hr, -, -⟩ := calc_stall_raises exStalled_inv indef 0 0 30 rfl
    (exStalled_target indef) rfl rfl
    (by show toInt indef (F64.fin 0) ≤ 0
        rw [toInt_fin_lt_one indef (le_refl _) (by norm_num)])
    (by decide)
  exact ⟨w', obs, h, hr⟩

/-! ### statements -/

/-- Never below the minimum: every request is at least the effective floor (before and after the
    cycle), which is at least the fan's minimum PWM. -/
theorem C02_request_ge_floor (indef : Int) (w w' : World) (curve : Res Int) (now t : Int)
    (obs : List Obs) (hinv : Inv w)
    (h : calculateTargetPwm indef w curve now = (w', .ok t, obs)) :
    w.fan.getMin ≤ w.floor ∧ w.floor ≤ t ∧ w'.floor ≤ t :=
  ⟨hinv.min_le_floor, ((calcTarget_cases' h).range hinv).1, ((calcTarget_cases' h).range hinv).2.2⟩

example (indef : Int) : ∃ w' t obs, calculateTargetPwm indef exStalled (.ok 0) 0 = (w', .ok t, obs) := by
  obtain ⟨w', obs, h, -⟩ := exStalled_raises indef; exact ⟨w', _, obs, h⟩

/-- The effective floor never drops, whatever happens (cycle with any curve outcome, poll, device
    change). No hypothesis is needed. -/
theorem C02_floor_monotone (indef : Int) (w : World) (e : Ev) : w.floor ≤ (stepEv indef w e).w.floor :=
  step_floor_le indef w e

example : exStalled.floor ≤ (stepEv 0 exStalled (.cycle (.ok 0) 0)).w.floor := C02_floor_monotone _ _ _

/-- The fan's own minimum is untouched while regulating (the stall branch raises the offset only). -/
theorem C02_min_never_drops (indef : Int) (w : World) (e : Ev) :
    (stepEv indef w e).w.fan.getMin = w.fan.getMin :=
  step_getMin indef w e

example : (stepEv 0 exStalled (.cycle (.ok 0) 0)).w.fan.getMin = 30 := C02_min_never_drops _ _ _

/-- A raise is strict and by exactly one; the request issued at the raise is one above the request at
    which the fan stalled (`lastSetPwm`). -/
theorem C02_raise_is_strict (indef : Int) (w w' : World) (curve : Res Int) (now t a b : Int)
    (obs : List Obs) (h : calculateTargetPwm indef w curve now = (w', .ok t, obs))
    (hr : Obs.raised a b ∈ obs) :
    a = w.floor ∧ b = a + 1 ∧ w'.ctl.offset = w.ctl.offset + 1 ∧ w'.floor = w.floor + 1 ∧
      ∃ l, w.ctl.lastSet = some l ∧ t = l + 1 := by
  obtain ⟨h1, h2, h3, h4, l, h5, h6, -⟩ := (calcTarget_cases' h).raise_shape hr
  injection h6 with h6
  exact ⟨h1, h2, h3, h4, l, h5, h6⟩

example (indef : Int) : ∃ w' t obs a b, calculateTargetPwm indef exStalled (.ok 0) 0 = (w', .ok t, obs) ∧
    Obs.raised a b ∈ obs := by
  obtain ⟨w', obs, h, hr⟩ := exStalled_raises indef; exact ⟨w', _, obs, _, _, h, hr⟩

/-- The raise is permanent. Index form: in the trace of any run, a request observed at position `j`
    is at least the floor in force at any earlier (or the same) position `i`. -/
theorem C02_history (indef : Int) (w0 : World) (es : List Ev) (hinv : Inv w0) (i j : Nat)
    (hij : i ≤ j) (hj : j < (runEvs indef w0 es).length) (t : Int)
    (ht : Obs.requested t ∈ ((runEvs indef w0 es)[j]).2.2.obs) :
    ((runEvs indef w0 es)[i]'(by omega)).1.floor ≤ t :=
  run_history_idx indef es w0 hinv i j hij hj t ht

example : 0 < (runEvs 0 exStalled [.cycle (.ok 0) 0, .poll]).length := by
  rw [runEvs_cons]; exact Nat.succ_pos _

/-- The same without indices: split the trace anywhere; every request at or after the split point
    is at least the floor at the split point. -/
theorem C02_history_split (indef : Int) (w0 : World) (es : List Ev) (hinv : Inv w0)
    (l1 : List (World × Ev × StepOut)) (x : World × Ev × StepOut) (l2 : List (World × Ev × StepOut))
    (h : runEvs indef w0 es = l1 ++ x :: l2) :
    ∀ y ∈ x :: l2, ∀ t, Obs.requested t ∈ y.2.2.obs → x.1.floor ≤ t :=
  run_history indef es w0 hinv l1 x l2 h

example : ∃ l2, runEvs 0 exStalled [.cycle (.ok 0) 0, .poll] =
    [] ++ (exStalled, Ev.cycle (.ok 0) 0, stepEv 0 exStalled (.cycle (.ok 0) 0)) :: l2 := by
  obtain ⟨es', h⟩ := runEvs_tail 0 exStalled (.cycle (.ok 0) 0) [.poll]
  exact ⟨_, h⟩

/-- Every state of a run has a floor at least the initial one and the initial fan minimum. -/
theorem C02_floor_ge_initial (indef : Int) (w0 : World) (es : List Ev) :
    (∀ x ∈ runEvs indef w0 es,
      w0.floor ≤ x.1.floor ∧ w0.floor ≤ x.2.2.w.floor ∧
      x.1.fan.getMin = w0.fan.getMin ∧ x.2.2.w.fan.getMin = w0.fan.getMin) ∧
    w0.floor ≤ (runFinal indef w0 es).floor ∧ (runFinal indef w0 es).fan.getMin = w0.fan.getMin := by
  refine ⟨fun x hx => ?_, (run_final_frame indef es w0).1, (run_final_frame indef es w0).2.1⟩
  obtain ⟨⟨a1, a2⟩, ⟨b1, b2⟩, -⟩ := run_limits_frame indef es w0 x hx
  exact ⟨a1, a2, b1, b2⟩

example : exStalled.floor ≤ (runFinal 0 exStalled [.cycle (.ok 0) 0, .poll, .cycle (.ok 0) 1]).floor :=
  (C02_floor_ge_initial 0 exStalled _).2.1

end Fan2go

#print axioms Fan2go.C02_request_ge_floor
#print axioms Fan2go.C02_floor_monotone
#print axioms Fan2go.C02_min_never_drops
#print axioms Fan2go.C02_raise_is_strict
#print axioms Fan2go.C02_history
#print axioms Fan2go.C02_history_split
#print axioms Fan2go.C02_floor_ge_initial
