/-
  Translation tie, third generation, fan level: the record `Generated3.HwMonOps` (what the translated methods of
  `fans.HwMonFan` do to the outside: `util.ReadIntFromFile`, `util.WriteIntToFile`, `os.Stat`, the fan object's own fields)
  instantiated on the model world: the three sysfs files of a hwmon fan are the registers of the model's `Dev` with their
  fault switches.

  The theorems `trans3_HwMonFan_*` (Props/Trans3Fan.lean) then say: for a hwmon fan, the fan-level primitives of the
  model (`supports`, `fanGetPwm`, `fanSetPwm`, `fanGetRpm`, `setPwmEnabled`, `FanSt.getMin/...`, `FanSt.attach`) - the ones
  `modelOps` (Props/Trans3Ops.lean) plugs into the controller's record - are what the translated `HwMonFan` methods compute
  over these file operations.  Core Lean only.
-/
import Fan2go.Props.Trans3Ops
namespace Fan2go
open F64

/-- the configured paths, as tokens -/
def pwmPath : String := "pwm"
def enablePath : String := "pwm_enable"
def rpmPath : String := "fan_input"

/-- `util.ReadIntFromFile` on a register with a fault switch: the value and error Go gets
    (a permission error is the error string "perm"; −1 / the recorded value next to other errors) -/
def readReg (m : ReadMode) (v : Int) : Int × Option String :=
  match m with
  | .ok => (v, none)
  | .errPerm => (-1, some "perm")
  | .errOther x => (x, some "read")

def devRead (path : String) (d : Dev) : Int × Option String :=
  if path = pwmPath then readReg d.pwmRead d.pwm
  else if path = enablePath then readReg d.modeRead d.mode
  else if path = rpmPath then (if d.hasRpm then readReg d.rpmRead d.rpm else (-1, some "read"))
  else (-1, some "read")

def devWrite (v : Int) (path : String) (d : Dev) : Option String × Dev :=
  if path = pwmPath then
    (match fanSetPwm d v with | (d', r) => (t3ErrOf r, d'))
  else if path = enablePath then
    (match d.modeWrite with
     | .refused => (some "write", d)
     | .applied => (none, { d with mode := v })
     | .ignored => (none, d))
  else (some "write", d)

def devStat (path : String) (d : Dev) : Option String :=
  if path = enablePath then (if d.hasMode then none else some "notexist")
  else if path = rpmPath then (if d.hasRpm then none else some "notexist")
  else if path = pwmPath then none
  else some "notexist"

/-- the record of operations of a `HwMonFan` over the model world -/
def hwmonOps : Generated3.HwMonOps World where
  readIntFromFile := fun path w => (.ok (devRead path w.dev), w)
  writeIntToFile := fun v path w => match devWrite v path w.dev with | (e, d') => (.ok e, { w with dev := d' })
  stat := fun path w => (.ok ((), devStat path w.dev), w)
  get_Config_HwMon_PwmPath := fun w => (.ok pwmPath, w)
  get_Config_HwMon_PwmEnablePath := fun w => (.ok enablePath, w)
  get_Config_HwMon_RpmInputPath := fun w => (.ok rpmPath, w)
  get_Config_NeverStop := fun w => (.ok w.fan.neverStop, w)
  get_Config_MinPwm := fun w => (.ok w.fan.cfgMin, w)
  get_Config_StartPwm := fun w => (.ok w.fan.cfgStart, w)
  get_Config_MaxPwm := fun w => (.ok w.fan.cfgMax, w)
  get_MinPwm := fun w => (.ok w.fan.minP, w)
  set_MinPwm := fun v w => (.ok (), { w with fan := { w.fan with minP := v } })
  get_StartPwm := fun w => (.ok w.fan.startP, w)
  set_StartPwm := fun v w => (.ok (), { w with fan := { w.fan with startP := v } })
  get_MaxPwm := fun w => (.ok w.fan.maxP, w)
  set_MaxPwm := fun v w => (.ok (), { w with fan := { w.fan with maxP := v } })
  get_RpmMovingAvg := fun w => (.ok w.fan.rpmAvg, w)
  set_RpmMovingAvg := fun v w => (.ok (), { w with fan := { w.fan with rpmAvg := v } })
  -- `HwMonFan.Rpm` / `HwMonFan.Pwm` cache the last successful reading for the REST API only: not part of the model
  get_Rpm := fun w => (.ok w.dev.rpm, w)
  set_Rpm := fun _ w => (.ok (), w)
  get_Pwm := fun w => (.ok w.dev.pwm, w)
  set_Pwm := fun _ w => (.ok (), w)
  get_FanCurveData := fun w => (.ok w.fan.curveData, w)
  set_FanCurveData := fun v w => (.ok (), { w with fan := { w.fan with curveData := v } })

end Fan2go
