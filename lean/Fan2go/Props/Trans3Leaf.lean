import Fan2go.Props.Trans3LeafOps
import Fan2go.Props.Trans
import Fan2go.Props.Trans2Interp
namespace Fan2go
open F64
set_option linter.unusedSimpArgs false

namespace T3L

theorem run_bind {σ α β : Type} (m : GoM σ α) (f : α → GoM σ β) (s : σ) :
    (m >>= f) s = match m s with
      | (.ok a, s') => f a s'
      | (.err e, s') => (.err e, s')
      | (.panic p, s') => (.panic p, s') := rfl

theorem run_pure {σ α : Type} (a : α) (s : σ) : (pure a : GoM σ α) s = (.ok a, s) := rfl

theorem run_ite {σ α : Type} (c : Prop) [Decidable c] (a b : GoM σ α) (s : σ) :
    (if c then a else b) s = if c then a s else b s := by split <;> rfl

theorem run_liftRes {σ α : Type} (r : Res α) (s : σ) : (Go.liftRes r : GoM σ α) s = (r, s) := rfl

theorem run_deref_some {σ α : Type} (a : α) (s : σ) : (Go.deref (some a) : GoM σ α) s = (.ok a, s) := rfl

theorem ofInt_zero : F64.ofInt 0 = F64.zero := by decide +kernel

end T3L
open T3L

variable (indef : Int)

/-! ### util.PidLoop -/
namespace T3L
theorem pid_now (w : PidW) : pidOps.now w = (.ok w.now, w) := rfl
theorem pid_get_p (w : PidW) : pidOps.get_p w = (.ok w.st.p, w) := rfl
theorem pid_get_i (w : PidW) : pidOps.get_i w = (.ok w.st.i, w) := rfl
theorem pid_get_d (w : PidW) : pidOps.get_d w = (.ok w.st.d, w) := rfl
theorem pid_get_error (w : PidW) : pidOps.get_error w = (.ok w.st.error, w) := rfl
theorem pid_set_error (v : F64) (w : PidW) :
    pidOps.set_error v w = (.ok (), { w with st := { w.st with error := v } }) := rfl
theorem pid_get_integral (w : PidW) : pidOps.get_integral w = (.ok w.st.integral, w) := rfl
theorem pid_set_integral (v : F64) (w : PidW) :
    pidOps.set_integral v w = (.ok (), { w with st := { w.st with integral := v } }) := rfl
theorem pid_get_lastTime (w : PidW) : pidOps.get_lastTime w = (.ok w.st.lastTime, w) := rfl
theorem pid_set_lastTime (v : Option Int) (w : PidW) :
    pidOps.set_lastTime v w = (.ok (), { w with st := { w.st with lastTime := v } }) := rfl
end T3L

theorem trans3_PidLoop_Loop (w : PidW) (target measured : F64) :
    Generated3.PidLoop_Loop indef pidOps target measured w
      = (.ok (pidLoop w.st target measured w.now).2, { w with st := (pidLoop w.st target measured w.now).1 }) := by
  unfold Generated3.PidLoop_Loop pidLoop
  simp only [run_bind, run_pure, run_ite, pid_now, pid_get_lastTime]
  cases h : w.st.lastTime with
  | none =>
    simp only [run_bind, run_pure, pid_set_error, pid_set_lastTime, ofInt_zero, if_true]
  | some last =>
    simp [run_bind, run_pure, run_deref_some, pid_get_p, pid_get_i, pid_get_d, pid_get_error, pid_set_error,
      pid_get_integral, pid_set_integral, pid_get_lastTime, pid_set_lastTime, h]

/-! ### sensors -/
namespace T3L
theorem sn_readInt (p : String) (w : SensorW) :
    sensorOps.readIntFromFile p w
      = (match w.io with | .readOk n => (.ok (n, none), w) | _ => (.ok (-1, some "read"), w)) := rfl
theorem sn_exec (e : String) (a : Array String) (t : Int) (w : SensorW) :
    sensorOps.safeCmdExecution e a t w
      = (match w.io with
         | .execErr => (.ok ("", some "exec"), w)
         | _ => (.ok ("<output>", none), w)) := rfl
theorem sn_parse (x : String) (b : Int) (w : SensorW) :
    sensorOps.parseFloat x b w
      = (match w.io with | .parsed v => (.ok (v, none), w) | _ => (.ok (F64.ofInt 0, some "parse"), w)) := rfl
theorem sn_expandHome (p : String) (w : SensorW) : sensorOps.expandHome p w = (.ok (p, none), w) := rfl
theorem sn_get_Input (w : SensorW) : sensorOps.get_Input w = (.ok "input", w) := rfl
theorem sn_get_Path (w : SensorW) : sensorOps.get_Config_File_Path w = (.ok "path", w) := rfl
theorem sn_get_Exec (w : SensorW) : sensorOps.get_Config_Cmd_Exec w = (.ok "exec", w) := rfl
theorem sn_get_Args (w : SensorW) : sensorOps.get_Config_Cmd_Args w = (.ok #[], w) := rfl
theorem sn_get_avg (w : SensorW) : sensorOps.get_MovingAvg w = (.ok w.avg, w) := rfl
theorem sn_set_avg (v : F64) (w : SensorW) : sensorOps.set_MovingAvg v w = (.ok (), { w with avg := v }) := rfl
end T3L

theorem trans3_HwmonSensor_GetValue (w : SensorW) :
    Generated3.HwmonSensor_GetValue indef sensorOps w = goReadF (sensorGetValue .hwmon w.io) w := by
  unfold Generated3.HwmonSensor_GetValue sensorGetValue goReadF
  simp only [run_bind, run_pure, run_ite, sn_get_Input, sn_readInt]
  cases w.io <;> simp [run_pure]

theorem trans3_FileSensor_GetValue (w : SensorW) :
    Generated3.FileSensor_GetValue indef sensorOps w = goReadF (sensorGetValue .file w.io) w := by
  unfold Generated3.FileSensor_GetValue sensorGetValue goReadF
  simp only [run_bind, run_pure, run_ite, sn_get_Path, sn_expandHome, sn_readInt]
  cases w.io <;> simp [run_pure, run_bind, sn_readInt]

theorem trans3_CmdSensor_GetValue (w : SensorW) :
    Generated3.CmdSensor_GetValue indef sensorOps w = goReadF (sensorGetValue .cmd w.io) w := by
  unfold Generated3.CmdSensor_GetValue sensorGetValue goReadF
  simp only [run_bind, run_pure, run_ite, sn_get_Exec, sn_get_Args, sn_exec, sn_parse]
  cases h : w.io with
  | parsed v => cases v <;> simp [run_pure, run_bind, run_ite, sn_parse, h, F64.isNaN, F64.isFinite]
  | _ => simp [run_pure, run_bind, run_ite, sn_parse, h]

theorem trans3_Sensor_MovingAvg (w : SensorW) (x : F64) :
    Generated3.HwmonSensor_GetMovingAvg indef sensorOps w = (.ok w.avg, w)
    ∧ Generated3.FileSensor_GetMovingAvg indef sensorOps w = (.ok w.avg, w)
    ∧ Generated3.CmdSensor_GetMovingAvg indef sensorOps w = (.ok w.avg, w)
    ∧ Generated3.HwmonSensor_SetMovingAvg indef sensorOps x w = (.ok (), { w with avg := x })
    ∧ Generated3.FileSensor_SetMovingAvg indef sensorOps x w = (.ok (), { w with avg := x })
    ∧ Generated3.CmdSensor_SetMovingAvg indef sensorOps x w = (.ok (), { w with avg := x }) := by
  unfold Generated3.HwmonSensor_GetMovingAvg Generated3.FileSensor_GetMovingAvg Generated3.CmdSensor_GetMovingAvg
    Generated3.HwmonSensor_SetMovingAvg Generated3.FileSensor_SetMovingAvg Generated3.CmdSensor_SetMovingAvg
  simp only [run_bind, run_pure, sn_get_avg, sn_set_avg, and_self]

/-! ### the monitor's smoothing step -/
namespace T3L
theorem mo_GetValue (w : MonitorW) : monitorOps.s_GetValue w = goReadF (sensorGetValue w.kind w.io) w := rfl
theorem mo_GetAvg (w : MonitorW) : monitorOps.s_GetMovingAvg w = (.ok w.avg, w) := rfl
theorem mo_SetAvg (v : F64) (w : MonitorW) : monitorOps.s_SetMovingAvg v w = (.ok (), { w with avg := v }) := rfl
theorem mo_window (w : MonitorW) : monitorOps.get_cfg_TempRollingWindowSize w = (.ok w.n, w) := rfl
/-- `GetValue()` of the model never panics -/
theorem sensorGetValue_no_panic (k : SensorKind) (io : SensorIo) (p : String) : sensorGetValue k io ≠ .panic p := by
  cases k <;> cases io <;> simp [sensorGetValue]
  split <;> simp
end T3L

theorem trans3_updateSensor (w : MonitorW) :
    Generated3.internal_updateSensor indef monitorOps w
      = (.ok (t3ErrOf (updateSensor w.n w.avg w.kind w.io).2), { w with avg := (updateSensor w.n w.avg w.kind w.io).1 }) := by
  unfold Generated3.internal_updateSensor updateSensor
  simp only [run_bind, run_pure, run_ite, mo_GetValue, goReadF]
  cases h : sensorGetValue w.kind w.io with
  | panic p => exact absurd h (sensorGetValue_no_panic _ _ _)
  | _ => simp [run_bind, run_pure, mo_GetAvg, mo_SetAvg, mo_window, t3ErrOf, trans_util_UpdateSimpleMovingAvg]

/-! ### leaf curves -/
namespace T3L
theorem cv_GetAvg (w : CurveW) : (curveOps indef).sensor_GetMovingAvg w = (.ok w.sv.avg, w) := rfl
theorem cv_GetValue (w : CurveW) : (curveOps indef).sensor_GetValue w = goReadF w.sv.value w := rfl
theorem cv_Loop (t m : F64) (w : CurveW) :
    (curveOps indef).pidLoop_Loop t m w
      = (.ok (pidLoop w.pid t m w.now).2, { w with pid := (pidLoop w.pid t m w.now).1 }) := rfl
theorem cv_Steps (w : CurveW) : (curveOps indef).get_Config_Linear_Steps w = (.ok w.steps, w) := rfl
theorem cv_Min (w : CurveW) : (curveOps indef).get_Config_Linear_Min w = (.ok w.mn, w) := rfl
theorem cv_Max (w : CurveW) : (curveOps indef).get_Config_Linear_Max w = (.ok w.mx, w) := rfl
theorem cv_SetPoint (w : CurveW) : (curveOps indef).get_Config_PID_SetPoint w = (.ok w.setPoint, w) := rfl
theorem cv_get_Value (w : CurveW) : (curveOps indef).get_Value w = (.ok w.value, w) := rfl
theorem cv_set_Value (v : Int) (w : CurveW) : (curveOps indef).set_Value v w = (.ok (), { w with value := v }) := rfl
end T3L

theorem trans3_LinearSpeedCurve_Evaluate (w : CurveW) (hs : ∀ st, w.steps = some st → SortedMap st) :
    Generated3.LinearSpeedCurve_Evaluate indef (curveOps indef) w
      = (match modelLinear indef w with
         | .ok v => (.ok (v, none), { w with value := v })
         | .err e => (.err e, w)
         | .panic p => (.panic p, w)) := by
  unfold Generated3.LinearSpeedCurve_Evaluate Generated3.LinearSpeedCurve_SetValue modelLinear
  simp only [run_bind, run_pure, run_ite, cv_GetAvg, cv_Steps]
  cases h : w.steps with
  | none =>
    simp only [ne_eq, not_true_eq_false, if_false, run_bind, run_pure, run_ite, cv_Min, cv_Max, linMinMax]
    by_cases h1 : w.sv.avg.ge (ofInt w.mx * ofInt 1000) = true
    · simp [h, h1, run_bind, run_pure, cv_set_Value]
    · by_cases h2 : w.sv.avg.le (ofInt w.mn * ofInt 1000) = true
      · simp [h, h1, h2, run_bind, run_pure, cv_set_Value]
      · simp [h, h1, h2, run_bind, run_pure, cv_set_Value]
  | some st =>
    have := trans2_util_CalculateInterpolatedCurveValue indef st "linear" (w.sv.avg / F64.ofInt 1000) (hs st h)
    simp only [ne_eq, reduceCtorEq, not_false_eq_true, if_true, run_bind, run_pure, run_liftRes, Go.mapOf,
      Option.getD_some, this, linSteps]
    cases hi : interp st (w.sv.avg / F64.ofInt 1000) <;>
      simp [h, run_bind, run_pure, cv_set_Value, bind, Res.bind, pure]

theorem trans3_PidSpeedCurve_Evaluate (w : CurveW) :
    Generated3.PidSpeedCurve_Evaluate indef (curveOps indef) w
      = (match w.sv.value with
         | .ok measured =>
           let (st', loopValue) := pidLoop w.pid w.setPoint (measured / ofRat 1000) w.now
           let v := toInt indef (coerce loopValue (ofInt 0) (ofInt 1) * ofInt 255)
           (.ok (v, none), { w with value := v, pid := st' })
         | .err e => (.ok (w.value, some e), w)
         | .panic p => (.panic p, w)) := by
  unfold Generated3.PidSpeedCurve_Evaluate Generated3.PidSpeedCurve_SetValue
  simp only [run_bind, run_pure, run_ite, cv_GetValue, goReadF]
  cases h : w.sv.value <;>
    simp [run_bind, run_pure, cv_get_Value, cv_set_Value, cv_SetPoint, cv_Loop, trans_util_Coerce, F64.ofInt]

end Fan2go

#print axioms Fan2go.trans3_LinearSpeedCurve_Evaluate
#print axioms Fan2go.trans3_PidSpeedCurve_Evaluate
#print axioms Fan2go.trans3_PidLoop_Loop
#print axioms Fan2go.trans3_HwmonSensor_GetValue
#print axioms Fan2go.trans3_FileSensor_GetValue
#print axioms Fan2go.trans3_CmdSensor_GetValue
#print axioms Fan2go.trans3_Sensor_MovingAvg
#print axioms Fan2go.trans3_updateSensor
