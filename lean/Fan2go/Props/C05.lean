/-
  C05 — External interference with a fan is undone within one control cycle; a changed PWM value is
  counted as a third-party change, and nothing is counted while nothing else touches the fan and its
  writes succeed.

  Objects: `updateFanSpeed`, `calculateTargetPwm`, `ensureNoThirdParty`, `ctlSetPwm`, `trySetManualPwm`
  in Model/Controller.lean (= controller.go `UpdateFanSpeed`, `calculateTargetPwm`,
  `ensureNoThirdPartyIsMessingWithUs`, `setPwm`, `trySetManualPwm`; hwmon.go `SetPwmEnabled`).
  Interference = arbitrary values of `w.dev.pwm` / `w.dev.mode` in the pre-state (nothing is assumed
  about them), or an `Ev.env` event in a run.
  All theorems hold for every `indef : Int` and every control loop (`LoopSt`), whose dynamics are never
  unfolded. Proofs are in Proofs/ThirdParty.lean.
-/
import Fan2go.Proofs.ThirdParty
namespace Fan2go

/-- C05 (a). After a control cycle that returns nil, a mode-capable fan is in manual mode and the PWM
    register shows the value the PWM map gives for the nearest supported value of the target that this
    very cycle requested (`Obs.requested t`; in the stall branch that is the incremented target) —
    whatever the PWM register and the mode register held before. -/
theorem C05_reasserted (indef : Int) (w w' : World) (c now : Int) (obs : List Obs)
    (hinv : Inv w) (hrb : ReadsBack w)
    (h : updateFanSpeed indef w (.ok c) now = (w', .ok (), obs)) :
    (supports w.fan w.dev .controlMode = true → w'.dev.mode = 1) ∧
    ∃ t k, Obs.requested t ∈ obs ∧ closestDistinct w'.ctl t = .ok k ∧
      w'.dev.pwm = applyPwmMapping w'.ctl k ∧ w'.ctl.lastSet = some t := by
  obtain ⟨t, k, m, o', ht, hk, hm1, rfl, rfl, -⟩ := update_ok hinv.mapInv hrb h
  have hkp := calc_keeps indef w (.ok c) now
  refine ⟨fun hs => hm1 hs, t, k, ?_, ?_, ?_, rfl⟩
  · exact List.mem_append_left _ (calc_requested indef w (.ok c) now t ht)
  · rw [← hk]; exact closestDistinct_congr hkp.distinct t
  · exact (applyPwmMapping_congr hkp.pwmMap k).symm

/-- C05 (a'), the same as a state predicate: the cycle re-establishes `Synced`, and it does not touch
    the fault switches or the PWM map, so the device contract holds again for the next cycle. -/
theorem C05_reasserted_synced (indef : Int) (w w' : World) (curve : Res Int) (now : Int) (obs : List Obs)
    (hinv : Inv w) (hrb : ReadsBack w)
    (h : updateFanSpeed indef w curve now = (w', .ok (), obs)) :
    Synced w' ∧ ReadsBack w' :=
  let g := update_ok_good hinv.mapInv hrb h
  ⟨g.synced, g.rb⟩

/-- the world used in the non-vacuity examples: hwmon fan with `pwmN_enable`, identity PWM map on
    0/128/255, last request 128; a third party has set the register to 77 and the mode to 2 (automatic). -/
def C05_w0 : World :=
  { fan := { kind := .hwmon },
    dev := { pwm := 77, mode := 2 },
    ctl := { lastSet := some 128, pwmMap := some [(0, 0), (128, 128), (255, 255)],
             distinct := #[0, 128, 255] } }

theorem C05_w0_inv : Inv C05_w0 :=
  ⟨by decide, by decide, by decide, by decide,
   ⟨_, rfl, ⟨by decide, by decide, by decide⟩, by decide⟩⟩

theorem C05_w0_readsBack : ReadsBack C05_w0 :=
  ⟨rfl, rfl, rfl, rfl, by intro m hm; cases hm; decide⟩

/-- non-vacuity of `C05_reasserted`: the cycle on the interfered world returns nil, and brings the fan
    from (pwm 77, automatic) to (pwm 255 = map value of the nearest supported target of 200, manual). -/
example : ∃ w' obs, updateFanSpeed 0 C05_w0 (.ok 200) 0 = (w', .ok (), obs) ∧
    w'.dev.mode = 1 ∧ w'.dev.pwm = 255 ∧ w'.ctl.lastSet = some 200 := by
  refine ⟨(updateFanSpeed 0 C05_w0 (.ok 200) 0).1, (updateFanSpeed 0 C05_w0 (.ok 200) 0).2.2, ?_, ?_, ?_, ?_⟩
  · have : (updateFanSpeed 0 C05_w0 (.ok 200) 0).2.1 = .ok () := by decide +kernel
    rw [← this]
  all_goals decide +kernel

/-- C05 (b). In a cycle with a readable PWM register and a previous request `l`, a third-party change
    is reported exactly when the register differs from the value the PWM map gives for the nearest
    supported value of `l`, and the counter `UnexpectedPwmValueCount` goes up by exactly one in that
    case and not at all otherwise. -/
theorem C05_counted (indef : Int) (w : World) (c now l k : Int)
    (hinv : Inv w) (hr : w.dev.pwmRead = .ok) (hl : w.ctl.lastSet = some l)
    (hk : closestDistinct w.ctl l = .ok k) :
    (Obs.thirdParty ∈ (calculateTargetPwm indef w (.ok c) now).2.2 ↔
        w.dev.pwm ≠ applyPwmMapping w.ctl k) ∧
    (calculateTargetPwm indef w (.ok c) now).1.ctl.unexpectedCount =
        w.ctl.unexpectedCount + (if w.dev.pwm ≠ applyPwmMapping w.ctl k then 1 else 0) :=
  calc_counted indef w c now hinv.mapInv hr hl hk

/-- C05 (b'). Before the first request (`lastSetPwm == nil`) nothing is compared and nothing counted. -/
theorem C05_counted_none (indef : Int) (w : World) (curve : Res Int) (now : Int)
    (hl : w.ctl.lastSet = none) :
    Obs.thirdParty ∉ (calculateTargetPwm indef w curve now).2.2 ∧
    (calculateTargetPwm indef w curve now).1.ctl.unexpectedCount = w.ctl.unexpectedCount :=
  ⟨(calc_none indef w curve now hl).2, (calc_none indef w curve now hl).1⟩

/-- C05 (b''). The same for the whole cycle as seen from outside: report in the cycle's observations
    and counter in the post-state (the rest of `UpdateFanSpeed` neither reports nor counts). -/
theorem C05_counted_cycle (indef : Int) (w w' : World) (c now l k : Int) (obs : List Obs)
    (hinv : Inv w) (hrb : ReadsBack w) (hl : w.ctl.lastSet = some l)
    (hk : closestDistinct w.ctl l = .ok k)
    (h : updateFanSpeed indef w (.ok c) now = (w', .ok (), obs)) :
    (Obs.thirdParty ∈ obs ↔ w.dev.pwm ≠ applyPwmMapping w.ctl k) ∧
    w'.ctl.unexpectedCount =
      w.ctl.unexpectedCount + (if w.dev.pwm ≠ applyPwmMapping w.ctl k then 1 else 0) := by
  obtain ⟨h1, h2⟩ := calc_counted indef w c now hinv.mapInv hrb.pwmRead hl hk
  obtain ⟨t, k', m, o', -, -, -, rfl, rfl, hn⟩ := update_ok hinv.mapInv hrb h
  refine ⟨?_, h2⟩
  rw [← h1, List.mem_append]
  exact ⟨fun hh => hh.elim id (fun x => absurd x hn), .inl⟩

/-- non-vacuity of `C05_counted`: on the interfered world the change is reported and counted once;
    on the same world with the register at the expected 128 it is not. -/
example : Obs.thirdParty ∈ (calculateTargetPwm 0 C05_w0 (.ok 200) 0).2.2 ∧
    (calculateTargetPwm 0 C05_w0 (.ok 200) 0).1.ctl.unexpectedCount = 1 ∧
    Obs.thirdParty ∉ (calculateTargetPwm 0 { C05_w0 with dev := { pwm := 128 } } (.ok 200) 0).2.2 ∧
    (calculateTargetPwm 0 { C05_w0 with dev := { pwm := 128 } } (.ok 200) 0).1.ctl.unexpectedCount = 0 := by
  decide +kernel

/-- C05 (c), one cycle. From a state in which the register shows what the last request dictates, a
    cycle reports no third-party change, leaves the counter alone, and ends in such a state again. -/
theorem C05_no_false_count_step (indef : Int) (w w' : World) (curve : Res Int) (now : Int)
    (obs : List Obs) (hinv : Inv w) (hrb : ReadsBack w) (hs : Synced w)
    (h : updateFanSpeed indef w curve now = (w', .ok (), obs)) :
    Obs.thirdParty ∉ obs ∧ Synced w' ∧ ReadsBack w' ∧
    w'.ctl.unexpectedCount = w.ctl.unexpectedCount := by
  have hg : Good w := ⟨hinv.mapInv, hrb, hs⟩
  obtain ⟨hc, hn, hgood⟩ := step_good (indef := indef) hg (.cycle curve now) (by intro d; simp)
  simp only [stepEv, h] at hc hn hgood
  exact ⟨hn, (hgood trivial).synced, (hgood trivial).rb, hc⟩

/-- C05 (c), a cycle that ends regulation (error or panic of `UpdateFanSpeed`) does not count either;
    `Synced` alone suffices for that. -/
theorem C05_no_false_count_any (indef : Int) (w : World) (curve : Res Int) (now : Int) (hs : Synced w) :
    Obs.thirdParty ∉ (calculateTargetPwm indef w curve now).2.2 ∧
    (calculateTargetPwm indef w curve now).1.ctl.unexpectedCount = w.ctl.unexpectedCount :=
  ⟨(calc_synced indef w curve now hs).2, (calc_synced indef w curve now hs).1⟩

/-- C05 (c), the RPM monitor's `measureRpm` touches neither the device nor the controller state. -/
theorem C05_poll_preserves (indef : Int) (w : World) (hrb : ReadsBack w) (hs : Synced w)
    (hm : MapInv w.ctl) :
    Synced (measureRpm indef w) ∧ ReadsBack (measureRpm indef w) ∧ MapInv (measureRpm indef w).ctl ∧
    (measureRpm indef w).ctl.unexpectedCount = w.ctl.unexpectedCount :=
  let g := poll_good (indef := indef) ⟨hm, hrb, hs⟩
  ⟨g.synced, g.rb, g.map, by rw [(measureRpm_dev_ctl indef w).2]⟩

/-- C05 (c), runs. Start from a state that satisfies the invariant and the device contract and in which
    the register shows what the last request dictates (in particular: any state before the first request).
    Along EVERY finite run of control cycles (any curve values, any clock readings, including cycles that
    fail and end the run) and RPM polls — i.e. no `Ev.env`: nothing else touches the fan, and the fault
    switches stay as they are because cycles and polls never change them — no third-party change is ever
    reported and the counter at the end equals the counter at the start. -/
theorem C05_no_false_count_run (indef : Int) (w0 : World) (es : List Ev)
    (hinv : Inv w0) (hrb : ReadsBack w0) (hs : Synced w0)
    (hes : ∀ e ∈ es, ∀ d, e ≠ .env d) :
    (runFinal indef w0 es).ctl.unexpectedCount = w0.ctl.unexpectedCount ∧
    ∀ x ∈ runEvs indef w0 es, Obs.thirdParty ∉ x.2.2.obs :=
  run_good indef es w0 ⟨hinv.mapInv, hrb, hs⟩ hes

/-- every state before the first request is `Synced` -/
theorem C05_synced_initially (w : World) (h : w.ctl.lastSet = none) : Synced w := by
  intro l hl; rw [h] at hl; cases hl

/-- non-vacuity of `C05_no_false_count_run`: a start state satisfying all three hypotheses, and a run of
    four events that is executed to its end (three cycles with different curve values and a poll). -/
example : Inv { C05_w0 with ctl := { C05_w0.ctl with lastSet := none } } ∧
    ReadsBack { C05_w0 with ctl := { C05_w0.ctl with lastSet := none } } ∧
    Synced { C05_w0 with ctl := { C05_w0.ctl with lastSet := none } } ∧
    (runEvs 0 { C05_w0 with ctl := { C05_w0.ctl with lastSet := none } }
      [.cycle (.ok 200) 0, .poll, .cycle (.ok 10) 1, .cycle (.ok 90) 2]).length = 4 ∧
    (runFinal 0 { C05_w0 with ctl := { C05_w0.ctl with lastSet := none } }
      [.cycle (.ok 200) 0, .poll, .cycle (.ok 10) 1, .cycle (.ok 90) 2]).dev.pwm = 128 := by
  refine ⟨⟨by decide, by decide, by decide, by decide,
      ⟨_, rfl, ⟨by decide, by decide, by decide⟩, by decide⟩⟩,
    ⟨rfl, rfl, rfl, rfl, by intro m hm; cases hm; decide⟩,
    C05_synced_initially _ rfl, by decide +kernel, by decide +kernel⟩

/-- the hypothesis "no `env` event" cannot be dropped: one external write between two cycles is counted. -/
example : (runFinal 0 { C05_w0 with ctl := { C05_w0.ctl with lastSet := none } }
      [.cycle (.ok 200) 0, .env { pwm := 3, mode := 2 }, .cycle (.ok 200) 1]).ctl.unexpectedCount = 1 ∧
    (runFinal 0 { C05_w0 with ctl := { C05_w0.ctl with lastSet := none } }
      [.cycle (.ok 200) 0, .env { pwm := 3, mode := 2 }, .cycle (.ok 200) 1]).dev.pwm = 255 ∧
    (runFinal 0 { C05_w0 with ctl := { C05_w0.ctl with lastSet := none } }
      [.cycle (.ok 200) 0, .env { pwm := 3, mode := 2 }, .cycle (.ok 200) 1]).dev.mode = 1 := by
  decide +kernel

#print axioms C05_reasserted
#print axioms C05_reasserted_synced
#print axioms C05_counted
#print axioms C05_counted_none
#print axioms C05_counted_cycle
#print axioms C05_no_false_count_step
#print axioms C05_no_false_count_any
#print axioms C05_poll_preserves
#print axioms C05_no_false_count_run
#print axioms C05_synced_initially
#print axioms C05_w0_inv
#print axioms C05_w0_readsBack

end Fan2go
