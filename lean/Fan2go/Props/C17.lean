/-
  C17 — hwmon entries bind to the device the user named, or fail cleanly.

  Model: `Fan2go/Model/Hwmon.lean` (tied to internal/hwmon/hwmon.go, the hwmon branch of
  `initializeSensors` and the entry loops of `initializeSensors` / `initializeFans` in
  internal/backend.go by the "hw" correspondence stream).
  Lemmas: `Fan2go/Proofs/Hwmon.lean`.

  Every theorem holds for EVERY platform matcher `m : String → String → Bool`
  (`m pattern platform` = `regexp.MatchString("(?i)"+pattern, platform)`, trusted).

  Fans: the property holds (C17_fan_*).
  Sensors: the property holds (C17_sensor_*) since /repo commit 218c45c.
  HISTORICAL NOTE: before that commit `initializeSensors` evaluated
  `c.Sensors[config.HwMon.Index].Input` without a presence test, so a sensor entry whose index
  was missing on a matching chip crashed start-up with a nil-pointer dereference
  (witness: one chip `k10temp-pci-00c3` with a single temperature input, entry
  `platform: k10temp, index: 2`; also: pattern `nct6775` matching a chip with the index and a
  fan-only chip). This file then contained `C17_sensor_refuted`, a proof of the negation of
  the "fails cleanly" statement. The fixed code skips a matching chip that lacks the index and
  fails with an error when no matching chip has it; the old witnesses are kept below as
  examples, now evaluating to `.err` resp. `.ok`.
-/
import Fan2go.Proofs.Hwmon
namespace Fan2go
namespace Hwmon

/-! ## vocabulary -/

/-- meaning of the selector test `fanOk`: a given (positive) index must equal the fan's
    enumeration index, a given (positive) rpm channel must equal the fan's channel -/
theorem C17_fanOk_iff (sel : FanSel) (f : FanDev) :
    fanOk sel f = true ↔
      (sel.index > 0 → f.index = sel.index) ∧ (sel.rpmChannel > 0 → f.rpmChannel = sel.rpmChannel) := by
  simp only [fanOk, Bool.and_eq_true, Bool.not_eq_true', Bool.and_eq_false_iff,
    decide_eq_false_iff_not, ne_eq, Decidable.not_not]
  constructor
  · rintro ⟨a, b⟩
    exact ⟨fun h => a.resolve_left (fun n => n h), fun h => b.resolve_left (fun n => n h)⟩
  · rintro ⟨a, b⟩
    refine ⟨?_, ?_⟩
    · by_cases h : sel.index > 0
      · exact Or.inr (a h)
      · exact Or.inl h
    · by_cases h : sel.rpmChannel > 0
      · exact Or.inr (b h)
      · exact Or.inl h

/-- the `HwMonFanConfig` a correct binding to fan `(index, rpmCh)` in directory `path` yields -/
def expectedBinding (path : String) (index rpmCh pwmCh : Int) : FanBinding :=
  { index := index, rpmChannel := rpmCh, pwmChannel := pwmCh, sysfsPath := path,
    rpmInputPath := path ++ "/" ++ ("fan" ++ toString rpmCh ++ "_input"),
    pwmPath := path ++ "/" ++ ("pwm" ++ toString pwmCh),
    pwmEnablePath := path ++ "/" ++ ("pwm" ++ toString pwmCh ++ "_enable") }

theorem mkBinding_eq_expected (sel : FanSel) (f : FanDev) :
    mkBinding sel f =
      expectedBinding f.sysfsPath f.index f.rpmChannel
        (if sel.pwmChannel = 0 then f.pwmChannel else sel.pwmChannel) := rfl

/-- everything `GetChips` returns is well formed: each fan lives in its chip's directory and its
    pwm channel is its rpm channel -/
theorem C17_getChips_wf (raws : List RawChip) : ∀ c ∈ getChips raws, c.WF :=
  fun _ h => getChips_wf h

/-! ## fans -/

/-- **C17 (fans, paths).** Exactly one chip matches the platform pattern and exactly one of its
    fans passes the selector: the entry is bound to that fan — RPM input from the fan's rpm
    channel, PWM and enable files from the pwm channel, which is the explicit one or else the
    fan's (= rpm) channel — all inside that chip's directory. -/
theorem C17_fan_paths (m : String → String → Bool) (chips : List Chip) (sel : FanSel)
    (c : Chip) (f : FanDev) (hwf : c.WF)
    (hc : c ∈ chips) (hm : m sel.platform c.platform = true)
    (hchip : ∀ c' ∈ chips, m sel.platform c'.platform = true → c' = c)
    (hf : f ∈ c.fans) (hok : fanOk sel f = true)
    (hdev : ∀ f' ∈ c.fans, fanOk sel f' = true → f' = f) :
    bindFan m chips sel =
      .ok (expectedBinding c.path f.index f.rpmChannel
            (if sel.pwmChannel = 0 then f.rpmChannel else sel.pwmChannel)) := by
  rw [bindFan_of_unique_chip hc hm hchip, bindFanDevs_unique hf hok hdev, mkBinding_eq_expected]
  obtain ⟨hp, hpw⟩ := hwf f hf
  simp only [hp, hpw]

/-- **C17 (fans, by index).** An `index: i+1` entry on the (only) matching chip is bound to the
    `i`-th fan of that chip in libsensors feature order (features without a `fanN_input`
    sub-feature or whose name does not scan as `fan%d` do not count). -/
theorem C17_fan_by_index (m : String → String → Bool) (raws : List RawChip) (rc : RawChip)
    (sel : FanSel) (i : Nat) (ch : Int)
    (hrc : rc ∈ raws) (hm : m sel.platform (platformOf rc) = true)
    (huniq : ∀ rc' ∈ raws, m sel.platform (platformOf rc') = true → rc' = rc)
    (hidx : sel.index = (i : Int) + 1) (hrpm : sel.rpmChannel = 0)
    (hch : (fanChannels rc.features)[i]? = some ch) :
    bindFan m (getChips raws) sel =
      .ok (expectedBinding rc.path ((i : Int) + 1) ch (if sel.pwmChannel = 0 then ch else sel.pwmChannel)) := by
  have hfans : getFans rc ≠ [] := by
    rw [getFans_eq]
    cases hcs : fanChannels rc.features with
    | nil => simp [hcs] at hch
    | cons a l => simp [mkFans]
  have hmem : mkChip rc ∈ getChips raws := mkChip_mem_getChips hrc (Or.inl hfans)
  have hchip : ∀ c' ∈ getChips raws, m sel.platform c'.platform = true → c' = mkChip rc := by
    intro c' hc' hm'
    obtain ⟨rc', hrc', rfl⟩ := mem_getChips hc'
    rw [huniq rc' hrc' hm']
  rw [bindFan_of_unique_chip hmem hm hchip]
  have : (mkChip rc).fans = mkFans rc.path 0 (fanChannels rc.features) := getFans_eq rc
  rw [this, bindFanDevs_mkFans_index sel rc.path 0 i _ (by simpa using hidx) (by omega), hch]
  simp only [Option.map_some, mkBinding_eq_expected, hidx]

/-- an index beyond the number of fans of the (only) matching chip: clean error -/
theorem C17_fan_index_out_of_range (m : String → String → Bool) (raws : List RawChip) (rc : RawChip)
    (sel : FanSel) (i : Nat)
    (huniq : ∀ rc' ∈ raws, m sel.platform (platformOf rc') = true → rc' = rc)
    (hidx : sel.index = (i : Int) + 1) (hrpm : sel.rpmChannel = 0)
    (hlen : (fanChannels rc.features).length ≤ i) :
    ∃ e, bindFan m (getChips raws) sel = .err e := by
  refine ⟨_, bindFan_err_of_no_device ?_⟩
  intro c hc hm
  obtain ⟨rc', hrc', rfl⟩ := mem_getChips hc
  have := huniq rc' hrc' hm
  subst this
  have hf : (mkChip rc').fans = mkFans rc'.path 0 (fanChannels rc'.features) := getFans_eq rc'
  rw [← bindFanDevs_none_iff, hf,
    bindFanDevs_mkFans_index sel rc'.path 0 i _ (by simpa using hidx) (by omega)]
  simp [List.getElem?_eq_none hlen]

/-- **C17 (fans, by channel).** An `rpmChannel: n` entry on the (only) matching chip is bound to
    the (first) fan feature named `fan<n>` of that chip, whatever its position. -/
theorem C17_fan_by_channel (m : String → String → Bool) (raws : List RawChip) (rc : RawChip)
    (sel : FanSel) (i : Nat)
    (hrc : rc ∈ raws) (hm : m sel.platform (platformOf rc) = true)
    (huniq : ∀ rc' ∈ raws, m sel.platform (platformOf rc') = true → rc' = rc)
    (hidx : sel.index = 0) (hrpm : sel.rpmChannel > 0)
    (hch : (fanChannels rc.features)[i]? = some sel.rpmChannel)
    (hfirst : ∀ j, j < i → (fanChannels rc.features)[j]? ≠ some sel.rpmChannel) :
    bindFan m (getChips raws) sel =
      .ok (expectedBinding rc.path ((i : Int) + 1) sel.rpmChannel
            (if sel.pwmChannel = 0 then sel.rpmChannel else sel.pwmChannel)) := by
  have hfans : getFans rc ≠ [] := by
    rw [getFans_eq]
    cases hcs : fanChannels rc.features with
    | nil => simp [hcs] at hch
    | cons a l => simp [mkFans]
  have hmem : mkChip rc ∈ getChips raws := mkChip_mem_getChips hrc (Or.inl hfans)
  have hchip : ∀ c' ∈ getChips raws, m sel.platform c'.platform = true → c' = mkChip rc := by
    intro c' hc' hm'
    obtain ⟨rc', hrc', rfl⟩ := mem_getChips hc'
    rw [huniq rc' hrc' hm']
  rw [bindFan_of_unique_chip hmem hm hchip]
  have : (mkChip rc).fans = mkFans rc.path 0 (fanChannels rc.features) := getFans_eq rc
  rw [this, bindFanDevs_mkFans_channel sel rc.path 0 i _ (by omega) hrpm hch hfirst]
  simp [mkBinding_eq_expected]

/-- **C17 (fans, enumeration order).** When at most one chip matches the platform pattern, the
    result of the binding does not depend on the order in which the chips are enumerated. -/
theorem C17_fan_perm_invariant (m : String → String → Bool) (chips chips' : List Chip) (sel : FanSel)
    (hperm : chips.Perm chips')
    (hone : (chips.filter fun c => m sel.platform c.platform).length ≤ 1) :
    bindFan m chips sel = bindFan m chips' sel :=
  bindFan_perm hperm hone

/-- **C17 (fans, clean failure).** The fan binding never panics; when no fan of a matching chip
    passes the selector it returns an error; and whatever it binds is a fan of a matching chip
    that passes the selector (never a different device). -/
theorem C17_fan_fails_clean (m : String → String → Bool) (chips : List Chip) (sel : FanSel) :
    (∀ s, bindFan m chips sel ≠ .panic s) ∧
    ((∀ c ∈ chips, m sel.platform c.platform = true → ∀ f ∈ c.fans, fanOk sel f = false) →
        ∃ e, bindFan m chips sel = .err e) ∧
    (∀ b, bindFan m chips sel = .ok b →
        ∃ c ∈ chips, m sel.platform c.platform = true ∧
          ∃ f ∈ c.fans, fanOk sel f = true ∧ b = mkBinding sel f) :=
  ⟨bindFan_ne_panic m chips sel, fun h => ⟨_, bindFan_err_of_no_device h⟩, fun _ h => bindFan_sound h⟩

/-! ## sensors -/

/-- **C17 (sensors, clean failure).** The sensor binding never panics; when no matching chip has
    the index (unknown platform or missing index) it returns an error; and whatever it binds is
    the input path of a matching chip that has the index (never a different device). -/
theorem C17_sensor_fails_clean (m : String → String → Bool) (chips : List Chip) (sel : SensorSel) :
    (∀ s, bindSensor m chips sel ≠ .panic s) ∧
    ((∀ c ∈ chips, m sel.platform c.platform = true → lookupTemp c.temps sel.index = none) →
        ∃ e, bindSensor m chips sel = .err e) ∧
    (∀ p, bindSensor m chips sel = .ok p →
        ∃ c ∈ chips, m sel.platform c.platform = true ∧ lookupTemp c.temps sel.index = some p) :=
  ⟨bindSensor_ne_panic m chips sel, fun h => ⟨_, bindSensor_err_of_no_hit h⟩, fun _ h => bindSensor_sound h⟩

/-- **C17 (sensors, binding).**
    (1) exactly one chip matches and has the index: the sensor reads that chip's input path;
    (2) some matching chip has the index: `.ok` with the input of a matching chip that has it;
    (3) no chip matches: an error. -/
theorem C17_sensor_partial (m : String → String → Bool) (chips : List Chip) (sel : SensorSel) :
    (∀ c p, c ∈ chips → m sel.platform c.platform = true →
        (∀ c' ∈ chips, m sel.platform c'.platform = true → c' = c) →
        lookupTemp c.temps sel.index = some p → bindSensor m chips sel = .ok p) ∧
    ((∃ c ∈ chips, m sel.platform c.platform = true ∧ (lookupTemp c.temps sel.index).isSome = true) →
        ∃ c ∈ chips, m sel.platform c.platform = true ∧
          ∃ p, lookupTemp c.temps sel.index = some p ∧ bindSensor m chips sel = .ok p) ∧
    ((∀ c ∈ chips, m sel.platform c.platform = false) → ∃ e, bindSensor m chips sel = .err e) :=
  ⟨fun _ _ hc hm hu hp => bindSensor_of_unique_chip hc hm hu hp,
   fun hex => bindSensor_ok_of_some_present hex,
   fun h => ⟨_, bindSensor_err_of_no_match h⟩⟩

/-- **C17 (sensors, chips without the index are skipped).** If exactly one of the matching chips
    has the index, the sensor reads that chip's input, wherever the other matching chips (e.g.
    fan-only chips of the same family) are enumerated. -/
theorem C17_sensor_skips_chip_without_index (m : String → String → Bool) (chips : List Chip)
    (sel : SensorSel) (c : Chip) (p : String)
    (hc : c ∈ chips) (hm : m sel.platform c.platform = true)
    (hp : lookupTemp c.temps sel.index = some p)
    (huniq : ∀ c' ∈ chips, m sel.platform c'.platform = true →
      (lookupTemp c'.temps sel.index).isSome = true → c' = c) :
    bindSensor m chips sel = .ok p :=
  bindSensor_of_unique_hit hc hm hp huniq

/-- the index of a sensor entry is the position among the chip's temperature features that have
    a `tempN_input` sub-feature, in libsensors feature order -/
theorem C17_sensor_by_index (m : String → String → Bool) (raws : List RawChip) (rc : RawChip)
    (sel : SensorSel) (i : Nat) (name : String)
    (hrc : rc ∈ raws) (hm : m sel.platform (platformOf rc) = true)
    (huniq : ∀ rc' ∈ raws, m sel.platform (platformOf rc') = true → rc' = rc)
    (hidx : sel.index = (i : Int) + 1)
    (hname : (tempInputs rc.features)[i]? = some name) :
    bindSensor m (getChips raws) sel = .ok (rc.path ++ "/" ++ name) := by
  have htemps : getTemps rc ≠ [] := by
    rw [getTemps_eq]
    cases hcs : tempInputs rc.features with
    | nil => simp [hcs] at hname
    | cons a l => simp [mkTemps]
  have hmem : mkChip rc ∈ getChips raws := mkChip_mem_getChips hrc (Or.inr htemps)
  have hchip : ∀ c' ∈ getChips raws, m sel.platform c'.platform = true → c' = mkChip rc := by
    intro c' hc' hm'
    obtain ⟨rc', hrc', rfl⟩ := mem_getChips hc'
    rw [huniq rc' hrc' hm']
  apply bindSensor_of_unique_chip hmem hm hchip
  show lookupTemp (getTemps rc) sel.index = _
  rw [hidx, lookupTemp_getTemps, hname]
  rfl

/-- **C17 (sensors, enumeration order).** With at most one matching chip the result does not
    depend on the enumeration order. -/
theorem C17_sensor_perm_invariant (m : String → String → Bool) (chips chips' : List Chip) (sel : SensorSel)
    (hperm : chips.Perm chips')
    (hone : (chips.filter fun c => m sel.platform c.platform).length ≤ 1) :
    bindSensor m chips sel = bindSensor m chips' sel :=
  bindSensor_perm hperm hone

/-- ... and it suffices that at most one matching chip HAS the index -/
theorem C17_sensor_perm_invariant' (m : String → String → Bool) (chips chips' : List Chip) (sel : SensorSel)
    (hperm : chips.Perm chips')
    (hone : (chips.filter (sensorHit m sel)).length ≤ 1) :
    bindSensor m chips sel = bindSensor m chips' sel :=
  bindSensor_perm_hit hperm hone

/-! ## non-vacuity: concrete trees through the whole model (`GetChips` included) -/

def exRaws : List RawChip :=
  [ { pfx := "nct6775", busType := 1, busNr := 0, addr := 0x290, path := "/sys/class/hwmon/hwmon2",
      features := [ ⟨.other, "in0", true, "in0_input"⟩, ⟨.fan, "fan2", true, "fan2_input"⟩,
                    ⟨.fan, "fanX", true, "fanX_input"⟩, ⟨.fan, "fan4", false, ""⟩,
                    ⟨.temp, "temp1", true, "temp1_input"⟩, ⟨.fan, "fan5", true, "fan5_input"⟩,
                    ⟨.temp, "temp2", false, ""⟩, ⟨.temp, "temp3", true, "temp3_input"⟩ ] },
    { pfx := "k10temp", busType := 2, busNr := 0, addr := 0xc3, path := "/sys/class/hwmon/hwmon1",
      features := [ ⟨.temp, "temp1", true, "temp1_input"⟩ ] },
    { pfx := "acpi-empty", busType := 5, busNr := 0, addr := 0, path := "/sys/class/hwmon/hwmon0",
      features := [ ⟨.other, "in0", true, "in0_input"⟩ ] } ]

/-- `GetChips` over the example: the empty chip is dropped, `fanX` and the input-less features
    do not consume an index -/
example : getChips exRaws =
    [ { name := "nct6775-isa-0290", platform := "nct6775-isa-0290", path := "/sys/class/hwmon/hwmon2",
        fans := [⟨1, 2, 2, "/sys/class/hwmon/hwmon2"⟩, ⟨2, 5, 5, "/sys/class/hwmon/hwmon2"⟩],
        temps := [(1, "/sys/class/hwmon/hwmon2/temp1_input"), (2, "/sys/class/hwmon/hwmon2/temp3_input")] },
      { name := "k10temp-pci-00c3", platform := "k10temp-pci-00c3", path := "/sys/class/hwmon/hwmon1",
        fans := [], temps := [(1, "/sys/class/hwmon/hwmon1/temp1_input")] } ] := by decide

/-- by channel, defaulted pwm channel -/
example : bindFan ciContains (getChips exRaws) { platform := "NCT6775", rpmChannel := 5 } =
    .ok (expectedBinding "/sys/class/hwmon/hwmon2" 2 5 5) := by decide

/-- by index, explicit pwm channel -/
example : bindFan ciContains (getChips exRaws) { platform := "nct6775-isa-0290", index := 1, pwmChannel := 3 } =
    .ok { index := 1, rpmChannel := 2, pwmChannel := 3, sysfsPath := "/sys/class/hwmon/hwmon2",
          rpmInputPath := "/sys/class/hwmon/hwmon2/fan2_input",
          pwmPath := "/sys/class/hwmon/hwmon2/pwm3",
          pwmEnablePath := "/sys/class/hwmon/hwmon2/pwm3_enable" } := by decide

/-- the hypotheses of `C17_fan_by_index` are satisfiable (instance of the theorem) -/
example : bindFan ciContains (getChips exRaws) { platform := "nct6775", index := 2 } =
    .ok (expectedBinding "/sys/class/hwmon/hwmon2" 2 5 5) := by
  have h := C17_fan_by_index ciContains exRaws exRaws[0] { platform := "nct6775", index := 2 } 1 5
    (by decide) (by decide) (by decide) (by decide) (by decide) (by decide)
  exact h

/-- unknown platform / missing index / missing channel: clean errors -/
example : bindFan ciContains (getChips exRaws) { platform := "it8620", index := 1 } = .err "no-hwmon-fan-matched" := by decide
example : bindFan ciContains (getChips exRaws) { platform := "nct6775", index := 3 } = .err "no-hwmon-fan-matched" := by decide
example : bindFan ciContains (getChips exRaws) { platform := "nct6775", rpmChannel := 4 } = .err "no-hwmon-fan-matched" := by decide

/-- enumeration order is irrelevant for an unambiguous pattern ... -/
example : bindFan ciContains (getChips exRaws.reverse) { platform := "nct6775", rpmChannel := 5 } =
    bindFan ciContains (getChips exRaws) { platform := "nct6775", rpmChannel := 5 } := by decide

/-- ... but not for an ambiguous one (two chips match `"-"`): the hypothesis of
    `C17_fan_perm_invariant` / `C17_sensor_perm_invariant` cannot be dropped. Fans take the FIRST
    matching chip, sensors the LAST. -/
example : bindSensor ciContains (getChips exRaws) { platform := "-", index := 1 } = .ok "/sys/class/hwmon/hwmon1/temp1_input" ∧
    bindSensor ciContains (getChips exRaws.reverse) { platform := "-", index := 1 } = .ok "/sys/class/hwmon/hwmon2/temp1_input" := by
  decide

/-- sensors: existing index, unknown platform, missing index (clean errors) -/
example : bindSensor ciContains (getChips exRaws) { platform := "nct6775", index := 2 } = .ok "/sys/class/hwmon/hwmon2/temp3_input" := by decide
example : bindSensor ciContains (getChips exRaws) { platform := "it8620", index := 1 } = .err "no-hwmon-device" := by decide
example : bindSensor ciContains (getChips exRaws) { platform := "k10temp", index := 2 } = .err "no-hwmon-device" := by decide
example : bindSensor ciContains (getChips exRaws) { platform := "nct6775", index := 0 } = .err "no-hwmon-device" := by decide
/-- pattern `"-"` matches both chips, only `nct6775` has a second temperature input -/
example : bindSensor ciContains (getChips exRaws) { platform := "-", index := 2 } = .ok "/sys/class/hwmon/hwmon2/temp3_input" := by decide

/-- the pre-fix witness (historical note in the header): one chip with one temperature input, a
    sensor entry asking for `index: 2`. It used to evaluate to `.panic "nil"`. -/
def witnessChip : Chip :=
  { platform := "k10temp-pci-00c3"
    path := "/sys/class/hwmon/hwmon1"
    fans := []
    temps := [(1, "/sys/class/hwmon/hwmon1/temp1_input")] }

example : bindSensor ciContains [witnessChip] { platform := "k10temp", index := 2 } = .err "no-hwmon-device" := by
  decide

/-- the second pre-fix witness: the pattern matches a chip that has the index and a fan-only chip
    of the same family -/
def skipRaws : List RawChip :=
  [ { pfx := "nct6775", busType := 1, busNr := 0, addr := 0x290, path := "/sys/class/hwmon/hwmon2",
      features := [ ⟨.fan, "fan1", true, "fan1_input"⟩, ⟨.temp, "temp1", true, "temp1_input"⟩,
                    ⟨.temp, "temp2", true, "temp2_input"⟩ ] },
    { pfx := "nct6775", busType := 1, busNr := 0, addr := 0x2a0, path := "/sys/class/hwmon/hwmon3",
      features := [ ⟨.fan, "fan1", true, "fan1_input"⟩ ] } ]

example : bindSensor ciContains (getChips skipRaws) { platform := "nct6775", index := 1 } =
    .ok "/sys/class/hwmon/hwmon2/temp1_input" := by decide
example : bindSensor ciContains (getChips skipRaws.reverse) { platform := "nct6775", index := 1 } =
    .ok "/sys/class/hwmon/hwmon2/temp1_input" := by decide

/-- the hypotheses of `C17_sensor_skips_chip_without_index` are satisfiable on that tree -/
example : bindSensor ciContains (getChips skipRaws) { platform := "nct6775", index := 1 } =
    .ok "/sys/class/hwmon/hwmon2/temp1_input" :=
  C17_sensor_skips_chip_without_index ciContains (getChips skipRaws) { platform := "nct6775", index := 1 }
    (mkChip skipRaws[0]) _ (by decide) (by decide) (by decide) (by decide)

/-! ## several entries in one `initializeSensors` / `initializeFans` call

  `bindSensors` / `bindFans` model the loops of internal/backend.go over the configured entries
  (tied to the real functions by the ops `hw.bindsensors` / `hw.bindfans`). The loops bind each
  entry from scratch: entry `i` gets exactly what it would get if it were the only entry. -/

/-- a sensor entry names no device: no matching chip has the index -/
def SensorSel.NoDevice (m : String → String → Bool) (chips : List Chip) (sel : SensorSel) : Prop :=
  ∀ c ∈ chips, m sel.platform c.platform = true → lookupTemp c.temps sel.index = none

/-- a fan entry names no device: no fan of a matching chip passes the selector -/
def FanSel.NoDevice (m : String → String → Bool) (chips : List Chip) (sel : FanSel) : Prop :=
  ∀ c ∈ chips, m sel.platform c.platform = true → ∀ f ∈ c.fans, fanOk sel f = false

/-- **C17 (sensors, independent entries).** The call succeeds with inputs `ps` iff there is one
    input per entry and entry `i` ON ITS OWN is bound to `ps[i]`. -/
theorem C17_sensors_independent (m : String → String → Bool) (chips : List Chip)
    (sels : List SensorSel) (ps : List String) :
    bindSensors m chips sels = .ok ps ↔
      ps.length = sels.length ∧
      ∀ i (h₁ : i < sels.length) (h₂ : i < ps.length), bindSensor m chips sels[i] = .ok ps[i] := by
  rw [bindSensors_ok_iff, map_eq_map_ok_iff]

/-- the same, as one equation between lists -/
theorem C17_sensors_independent_map (m : String → String → Bool) (chips : List Chip)
    (sels : List SensorSel) (ps : List String) :
    bindSensors m chips sels = .ok ps ↔ sels.map (bindSensor m chips) = ps.map Res.ok :=
  bindSensors_ok_iff m chips sels ps

/-- **C17 (sensors, first failure).** The call never panics; it fails iff some entry names no
    device; and the error then carries the position of the FIRST such entry (every entry before
    it has a device). -/
theorem C17_sensors_first_failure (m : String → String → Bool) (chips : List Chip) (sels : List SensorSel) :
    (∀ s, bindSensors m chips sels ≠ .panic s) ∧
    ((∃ e, bindSensors m chips sels = .err e) ↔ ∃ sel ∈ sels, sel.NoDevice m chips) ∧
    (∀ e, bindSensors m chips sels = .err e ↔
      ∃ pre sel post, sels = pre ++ sel :: post ∧ (∀ s ∈ pre, ∃ p, bindSensor m chips s = .ok p) ∧
        sel.NoDevice m chips ∧ e = s!"no-hwmon-device@{pre.length}") := by
  refine ⟨?_, ?_, ?_⟩
  · intro s h
    obtain ⟨sel, _, hp⟩ := bindEntriesLoop_panic h
    exact bindSensor_ne_panic m chips sel s hp
  · unfold bindSensors
    rw [bindEntriesLoop_fails_iff _ _ _ _ _ (fun sel s => bindSensor_ne_panic m chips sel s)]
    simp only [bindSensor_err_iff, SensorSel.NoDevice]
  · intro e
    unfold bindSensors
    rw [bindEntriesLoop_err_iff]
    simp only [bindSensor_err_iff, SensorSel.NoDevice, Nat.zero_add, errAt_sensor]

/-- **C17 (sensors, nothing leaks between entries).** Given a successful call:
    (1) any call made only of entries of this call succeeds too (removing, permuting or repeating
        entries cannot make an entry lose its device);
    (2) if entry `i` of this call and entry `j` of any other successful call (on the same chips)
        are the same configuration entry, both are bound to the same input — the one the entry
        gets on its own; the other entries of either call are irrelevant. -/
theorem C17_sensors_no_leak (m : String → String → Bool) (chips : List Chip)
    (sels : List SensorSel) (ps : List String) (h : bindSensors m chips sels = .ok ps) :
    (∀ sels', (∀ sel ∈ sels', sel ∈ sels) → ∃ ps', bindSensors m chips sels' = .ok ps') ∧
    (∀ (sels' : List SensorSel) (ps' : List String) (i j : Nat) (sel : SensorSel), bindSensors m chips sels' = .ok ps' →
        sels[i]? = some sel → sels'[j]? = some sel →
        ∃ p, ps[i]? = some p ∧ ps'[j]? = some p ∧ bindSensor m chips sel = .ok p) := by
  rw [bindSensors_ok_iff] at h
  refine ⟨fun sels' hsub => ?_, fun sels' ps' i j sel h' hi hj => ?_⟩
  · obtain ⟨ps', hps'⟩ := map_eq_map_ok_of_subset h hsub
    exact ⟨ps', (bindSensors_ok_iff m chips sels' ps').2 hps'⟩
  · exact map_eq_map_ok_no_leak h ((bindSensors_ok_iff m chips sels' ps').1 h') hi hj

/-- **C17 (fans, independent entries).** The call succeeds with bindings `bs` iff there is one
    binding per entry and entry `i` ON ITS OWN is bound to `bs[i]`. -/
theorem C17_fans_independent (m : String → String → Bool) (chips : List Chip)
    (sels : List FanSel) (bs : List FanBinding) :
    bindFans m chips sels = .ok bs ↔
      bs.length = sels.length ∧
      ∀ i (h₁ : i < sels.length) (h₂ : i < bs.length), bindFan m chips sels[i] = .ok bs[i] := by
  rw [bindFans_ok_iff, map_eq_map_ok_iff]

theorem C17_fans_independent_map (m : String → String → Bool) (chips : List Chip)
    (sels : List FanSel) (bs : List FanBinding) :
    bindFans m chips sels = .ok bs ↔ sels.map (bindFan m chips) = bs.map Res.ok :=
  bindFans_ok_iff m chips sels bs

/-- **C17 (fans, first failure).** The call never panics; it fails iff some entry names no
    device; the error carries the position of the FIRST such entry. -/
theorem C17_fans_first_failure (m : String → String → Bool) (chips : List Chip) (sels : List FanSel) :
    (∀ s, bindFans m chips sels ≠ .panic s) ∧
    ((∃ e, bindFans m chips sels = .err e) ↔ ∃ sel ∈ sels, sel.NoDevice m chips) ∧
    (∀ e, bindFans m chips sels = .err e ↔
      ∃ pre sel post, sels = pre ++ sel :: post ∧ (∀ s ∈ pre, ∃ b, bindFan m chips s = .ok b) ∧
        sel.NoDevice m chips ∧ e = s!"no-hwmon-fan-matched@{pre.length}") := by
  refine ⟨?_, ?_, ?_⟩
  · intro s h
    obtain ⟨sel, _, hp⟩ := bindEntriesLoop_panic h
    exact bindFan_ne_panic m chips sel s hp
  · unfold bindFans
    rw [bindEntriesLoop_fails_iff _ _ _ _ _ (fun sel s => bindFan_ne_panic m chips sel s)]
    simp only [bindFan_err_iff, FanSel.NoDevice]
  · intro e
    unfold bindFans
    rw [bindEntriesLoop_err_iff]
    simp only [bindFan_err_iff, FanSel.NoDevice, Nat.zero_add, errAt_fan]

/-- **C17 (fans, nothing leaks between entries).** As `C17_sensors_no_leak`. -/
theorem C17_fans_no_leak (m : String → String → Bool) (chips : List Chip)
    (sels : List FanSel) (bs : List FanBinding) (h : bindFans m chips sels = .ok bs) :
    (∀ sels', (∀ sel ∈ sels', sel ∈ sels) → ∃ bs', bindFans m chips sels' = .ok bs') ∧
    (∀ (sels' : List FanSel) (bs' : List FanBinding) (i j : Nat) (sel : FanSel), bindFans m chips sels' = .ok bs' →
        sels[i]? = some sel → sels'[j]? = some sel →
        ∃ b, bs[i]? = some b ∧ bs'[j]? = some b ∧ bindFan m chips sel = .ok b) := by
  rw [bindFans_ok_iff] at h
  refine ⟨fun sels' hsub => ?_, fun sels' bs' i j sel h' hi hj => ?_⟩
  · obtain ⟨bs', hbs'⟩ := map_eq_map_ok_of_subset h hsub
    exact ⟨bs', (bindFans_ok_iff m chips sels' bs').2 hbs'⟩
  · exact map_eq_map_ok_no_leak h ((bindFans_ok_iff m chips sels' bs').1 h') hi hj

/-- every path triple of a successful `initializeFans` lies in ONE directory: that of a matching
    chip (for well-formed chips, i.e. everything `GetChips` returns) -/
theorem C17_fans_paths_in_matching_chip (m : String → String → Bool) (chips : List Chip)
    (hwf : ∀ c ∈ chips, c.WF) (sels : List FanSel) (bs : List FanBinding)
    (h : bindFans m chips sels = .ok bs) (i : Nat) (sel : FanSel) (b : FanBinding)
    (hi : sels[i]? = some sel) (hb : bs[i]? = some b) :
    ∃ c ∈ chips, m sel.platform c.platform = true ∧ ∃ f ∈ c.fans, fanOk sel f = true ∧
      b.rpmInputPath = c.path ++ "/" ++ ("fan" ++ toString b.rpmChannel ++ "_input") ∧
      b.pwmPath = c.path ++ "/" ++ ("pwm" ++ toString b.pwmChannel) ∧
      b.pwmEnablePath = c.path ++ "/" ++ ("pwm" ++ toString b.pwmChannel ++ "_enable") := by
  obtain ⟨b', hb', _, hok⟩ := (C17_fans_no_leak m chips sels bs h).2 sels bs i i sel h hi hi
  rw [hb] at hb'; cases hb'
  obtain ⟨c, hc, hm, f, hf, hfok, rfl⟩ := bindFan_sound hok
  obtain ⟨hp, _⟩ := hwf c hc f hf
  refine ⟨c, hc, hm, f, hf, hfok, ?_, ?_, ?_⟩ <;> simp only [mkBinding_eq_expected, expectedBinding, hp]

/-! ### non-vacuity for the multi-entry theorems -/

/-- two sensor entries and three fan entries on the example tree, all bound -/
example : bindSensors ciContains (getChips exRaws) [{ platform := "nct6775", index := 2 }, { platform := "k10temp", index := 1 }] =
    .ok ["/sys/class/hwmon/hwmon2/temp3_input", "/sys/class/hwmon/hwmon1/temp1_input"] := by decide
example : bindFans ciContains (getChips exRaws)
      [{ platform := "nct6775", index := 2 }, { platform := "NCT6775", rpmChannel := 2, pwmChannel := 3 }, { platform := "nct6775", index := 2 }] =
    .ok [expectedBinding "/sys/class/hwmon/hwmon2" 2 5 5, expectedBinding "/sys/class/hwmon/hwmon2" 1 2 3,
         expectedBinding "/sys/class/hwmon/hwmon2" 2 5 5] := by decide

/-- the first entry without a device aborts the call; later entries (bindable or not) are not looked at -/
example : bindSensors ciContains (getChips exRaws)
      [{ platform := "nct6775", index := 1 }, { platform := "k10temp", index := 2 }, { platform := "zzz", index := 1 }] =
    .err "no-hwmon-device@1" := by decide
example : bindFans ciContains (getChips exRaws)
      [{ platform := "nct6775", index := 1 }, { platform := "nct6775", index := 2 }, { platform := "k10temp", index := 1 }, { platform := "nct6775", index := 1 }] =
    .err "no-hwmon-fan-matched@2" := by decide

/-- the hypotheses of the `*_no_leak` theorems are satisfiable: the `nct6775 / index 2` entry gets the
    same device at position 0 of one call and at position 1 of another -/
example : ∃ b, (([expectedBinding "/sys/class/hwmon/hwmon2" 2 5 5, expectedBinding "/sys/class/hwmon/hwmon2" 1 2 3,
         expectedBinding "/sys/class/hwmon/hwmon2" 2 5 5] : List FanBinding)[0]? = some b) ∧
      ([expectedBinding "/sys/class/hwmon/hwmon2" 1 2 2, expectedBinding "/sys/class/hwmon/hwmon2" 2 5 5] : List FanBinding)[1]? = some b ∧
      bindFan ciContains (getChips exRaws) { platform := "nct6775", index := 2 } = .ok b :=
  (C17_fans_no_leak ciContains (getChips exRaws)
      [{ platform := "nct6775", index := 2 }, { platform := "NCT6775", rpmChannel := 2, pwmChannel := 3 }, { platform := "nct6775", index := 2 }]
      _ (by decide)).2
    [{ platform := "nct6775", index := 1 }, { platform := "nct6775", index := 2 }] _ 0 1 { platform := "nct6775", index := 2 }
    (by decide) (by decide) (by decide)

#print axioms C17_fanOk_iff
#print axioms C17_getChips_wf
#print axioms C17_fan_paths
#print axioms C17_fan_by_index
#print axioms C17_fan_index_out_of_range
#print axioms C17_fan_by_channel
#print axioms C17_fan_perm_invariant
#print axioms C17_fan_fails_clean
#print axioms C17_sensor_fails_clean
#print axioms C17_sensor_partial
#print axioms C17_sensor_skips_chip_without_index
#print axioms C17_sensor_by_index
#print axioms C17_sensor_perm_invariant
#print axioms C17_sensor_perm_invariant'
#print axioms C17_sensors_independent
#print axioms C17_sensors_independent_map
#print axioms C17_sensors_first_failure
#print axioms C17_sensors_no_leak
#print axioms C17_fans_independent
#print axioms C17_fans_independent_map
#print axioms C17_fans_first_failure
#print axioms C17_fans_no_leak
#print axioms C17_fans_paths_in_matching_chip

end Hwmon
end Fan2go
