/-
  Translation tie, third generation, leaves: the records of operations of the leaf curve kinds (`CurveOps`), of
  `util.PidLoop` (`PidOps`), of the three sensor backends (`SensorOps`) and of the sensor monitor's smoothing step
  (`MonitorOps`), instantiated on small model states; Props/Trans3Leaf.lean proves that the translated methods compute
  the model's functions (`linMinMax` / `linSteps`, the PID branch of `evalCurve`, `pidLoop`, `sensorGetValue`,
  `updateSensor`).  Core Lean only.
-/
import Fan2go.Props.Trans3Ops
import Fan2go.Model.Curves
import Fan2go.Model.Sensor
namespace Fan2go
open F64

/-! ### leaf curves -/

/-- what a leaf curve object and its sensor are, in model terms -/
structure CurveW where
  /-- the sensor the curve reads: moving average and outcome of `GetValue()` -/
  sv : SensorView
  steps : Option (List (Int × F64)) := none
  mn : Int := 0
  mx : Int := 0
  setPoint : F64 := F64.zero
  /-- memory of the PID curve and the clock reading of this evaluation -/
  pid : PidSt := { p := F64.zero, i := F64.zero, d := F64.zero }
  now : Int := 0
  /-- the `Value` field -/
  value : Int := 0

/-- lift a model read `Res F64` into a Go `(float64, error)` result (0 next to an error) -/
def goReadF {σ : Type} (r : Res F64) : GoM σ (F64 × Option String) := fun s =>
  match r with
  | .ok v => (.ok (v, none), s)
  | .err e => (.ok (F64.ofInt 0, some e), s)
  | .panic p => (.panic p, s)

def curveOps (indef : Int) : Generated3.CurveOps CurveW where
  sensor_GetMovingAvg := fun w => (.ok w.sv.avg, w)
  sensor_GetValue := fun w => goReadF w.sv.value w
  pidLoop_Loop := fun t m w => let (st', out) := pidLoop w.pid t m w.now; (.ok out, { w with pid := st' })
  get_Config_Linear_Steps := fun w => (.ok w.steps, w)
  get_Config_Linear_Min := fun w => (.ok w.mn, w)
  get_Config_Linear_Max := fun w => (.ok w.mx, w)
  get_Config_PID_SetPoint := fun w => (.ok w.setPoint, w)
  get_Value := fun w => (.ok w.value, w)
  set_Value := fun v w => (.ok (), { w with value := v })

/-- the linear branch of the model's `evalCurve` -/
def modelLinear (indef : Int) (w : CurveW) : Res Int :=
  match w.steps with
  | some st => linSteps indef w.sv.avg st
  | none => .ok (linMinMax indef w.sv.avg w.mn w.mx)

/-! ### util.PidLoop -/

structure PidW where
  st : PidSt
  now : Int

def pidOps : Generated3.PidOps PidW where
  now := fun w => (.ok w.now, w)
  get_p := fun w => (.ok w.st.p, w)
  get_i := fun w => (.ok w.st.i, w)
  get_d := fun w => (.ok w.st.d, w)
  get_error := fun w => (.ok w.st.error, w)
  set_error := fun v w => (.ok (), { w with st := { w.st with error := v } })
  get_integral := fun w => (.ok w.st.integral, w)
  set_integral := fun v w => (.ok (), { w with st := { w.st with integral := v } })
  get_lastTime := fun w => (.ok w.st.lastTime, w)
  set_lastTime := fun v w => (.ok (), { w with st := { w.st with lastTime := v } })

/-! ### sensors -/

structure SensorW where
  /-- what the backend I/O of this poll produces -/
  io : SensorIo
  avg : F64 := F64.zero

def sensorOps : Generated3.SensorOps SensorW where
  readIntFromFile := fun _ w => match w.io with
    | .readOk n => (.ok (n, none), w)
    | _ => (.ok (-1, some "read"), w)
  safeCmdExecution := fun _ _ _ w => match w.io with
    | .execErr => (.ok ("", some "exec"), w)
    | _ => (.ok ("<output>", none), w)
  parseFloat := fun _ _ w => match w.io with
    | .parsed v => (.ok (v, none), w)
    | _ => (.ok (F64.ofInt 0, some "parse"), w)
  -- `~` expansion is not modelled: paths are what the configuration says
  expandHome := fun p w => (.ok (p, none), w)
  get_Input := fun w => (.ok "input", w)
  get_Config_File_Path := fun w => (.ok "path", w)
  get_Config_Cmd_Exec := fun w => (.ok "exec", w)
  get_Config_Cmd_Args := fun w => (.ok #[], w)
  get_MovingAvg := fun w => (.ok w.avg, w)
  set_MovingAvg := fun v w => (.ok (), { w with avg := v })

/-! ### the monitor's smoothing step -/

structure MonitorW where
  kind : SensorKind
  io : SensorIo
  avg : F64
  n : Int

def monitorOps : Generated3.MonitorOps MonitorW where
  s_GetValue := fun w => goReadF (sensorGetValue w.kind w.io) w
  s_GetMovingAvg := fun w => (.ok w.avg, w)
  s_SetMovingAvg := fun v w => (.ok (), { w with avg := v })
  get_cfg_TempRollingWindowSize := fun w => (.ok w.n, w)

end Fan2go
