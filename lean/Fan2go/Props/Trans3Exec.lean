/-
  Translation tie, third generation, running an external command (C18, C19): `Generated3.util_SafeCmdExecution` —
  regenerated from internal/util/exec.go on every run — against the hand-written model `safeCmd` / `runCmd`
  (Model/Exec.lean).

  The model describes a call by its OUTCOME per behaviour of the external process. Here that outcome is split into the part
  that is os/exec's (`rawOutput`: what `cmd.Output()` returns and whether the context's deadline has passed when it
  returns — the semantics recorded at the head of Model/Exec.lean) and the part that is fan2go's: the decision logic of
  `SafeCmdExecution` (permission test first, nothing started when it fails, no success after the deadline, output dropped
  on any error, newline trimming), which is the translated code. The theorems say that the two parts compose to the model.
  Core Lean only.
-/
import Fan2go.Generated.Trans3
import Fan2go.Model.Exec
namespace Fan2go

/-- `cmd.Output()` of os/exec with `WaitDelay = 200 ms`, per behaviour of the process: (stdout, error, "the deadline has
    passed when Output returns"). On an `*exec.ExitError` `Output` still returns what was captured. -/
def rawOutput (beh : Beh) (timeout : Nat) : String × Option String × Bool :=
  if timeout = 0 then ("", some "context deadline exceeded", true)
  else
  match beh with
  | .startError => ("", some "fork/exec", false)
  | .exits code out => if code = 0 then (out, none, false) else (out, some "exit status", false)
  | .killedBySignal out => (out, some "signal", false)
  | .outlivesDeadline _ => ("", some "signal: killed", true)
  | .grandchildHoldsStdout out hold =>
    match hold with
    | .ms h =>
      if h < cmdWaitDelayMs then (out, none, decide (timeout ≤ h))
      else (out, some "exec: WaitDelay expired before I/O complete", decide (timeout ≤ cmdWaitDelayMs))
    | .forever => (out, some "exec: WaitDelay expired before I/O complete", decide (timeout ≤ cmdWaitDelayMs))

/-- the operations of `SafeCmdExecution`; the state records whether `cmd.Output()` was reached (`attempted`) -/
def execOps (perm : PermOut) (beh : Beh) (timeout : Nat) : Generated3.ExecOps Bool where
  checkPerm := fun _ s =>
    (match perm with
     | .ok (.ok ()) => .ok (true, none)
     | .ok (.error e) => .ok (false, some e)
     | .err e => .err e
     | .panic p => .panic p, s)
  cmdOutput := fun _ => (.ok ((rawOutput beh timeout).1, (rawOutput beh timeout).2.1), true)
  ctxErr := fun s => (.ok (if (rawOutput beh timeout).2.2 then some "context deadline exceeded" else none), s)
  stringsTrim := fun str cut s => (if cut = "\n" then .ok (trimNl str) else .panic "trim-cutset", s)

/-- Go's `(string, error)` for the model's outcome of a call that got past the permission test -/
def execPair : Except String String → String × Option String
  | .ok s => (s, none)
  | .error m => ("", some m)

def execResGo : Res (Except String String) → Res (String × Option String)
  | .ok r => .ok (execPair r)
  | .err e => .err e
  | .panic p => .panic p



theorem trans3_util_SafeCmdExecution_checked (indef : Int) (beh : Beh) (timeout : Nat) (exe : String) (args : Array String) (t : Int) :
    Generated3.util_SafeCmdExecution indef (execOps (.ok (.ok ())) beh timeout) exe args t false
      = (execResGo (runCmd beh timeout).res, true) := by
  by_cases ht : timeout = 0
  · simp [Generated3.util_SafeCmdExecution, execOps, runCmd, rawOutput, ht, execResGo, execPair, bind, GoM.bind', GoM.pure', pure]
  · cases beh with
    | startError => simp [Generated3.util_SafeCmdExecution, execOps, runCmd, rawOutput, ht, execResGo, execPair, bind, GoM.bind', GoM.pure', pure]
    | exits code out =>
      by_cases hc : code = 0 <;>
        simp [Generated3.util_SafeCmdExecution, execOps, runCmd, rawOutput, ht, hc, execResGo, execPair, bind, GoM.bind', GoM.pure', pure]
    | killedBySignal out => simp [Generated3.util_SafeCmdExecution, execOps, runCmd, rawOutput, ht, execResGo, execPair, bind, GoM.bind', GoM.pure', pure]
    | outlivesDeadline o => simp [Generated3.util_SafeCmdExecution, execOps, runCmd, rawOutput, ht, execResGo, execPair, bind, GoM.bind', GoM.pure', pure]
    | grandchildHoldsStdout out hold =>
      cases hold with
      | forever =>
        by_cases h1 : timeout ≤ cmdWaitDelayMs <;>
        simp [Generated3.util_SafeCmdExecution, execOps, runCmd, rawOutput, ht, h1, execResGo, execPair, bind, GoM.bind', GoM.pure', pure]
      | ms h =>
        by_cases h1 : timeout ≤ cmdWaitDelayMs <;> by_cases h2 : h < cmdWaitDelayMs <;> by_cases h3 : h < timeout <;>
        simp [Generated3.util_SafeCmdExecution, execOps, runCmd, rawOutput, ht, h1, h2, h3, execResGo, execPair, bind, GoM.bind', GoM.pure', pure] <;> omega

theorem trans3_util_SafeCmdExecution_refused (indef : Int) (e : String) (beh : Beh) (timeout : Nat) (exe : String) (args : Array String) (t : Int) :
    Generated3.util_SafeCmdExecution indef (execOps (.ok (.error e)) beh timeout) exe args t false
      = (.ok ("", some "cannot execute"), false) := by
  simp [Generated3.util_SafeCmdExecution, execOps, bind, GoM.bind', GoM.pure', pure]

end Fan2go
