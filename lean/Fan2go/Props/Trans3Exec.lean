/-
  Translation tie, third generation, running an external command (C18, C19): `Generated3.util_SafeCmdExecution` —
  regenerated from internal/util/exec.go on every run — against the hand-written model `safeCmd` / `runCmd`
  (Model/Exec.lean).

  The model describes a call by its OUTCOME per behaviour of the external process. Here that outcome is split into the part
  that is os/exec's (`rawOutput`: what `cmd.Output()` returns and whether the context's deadline has passed when it
  returns — the semantics recorded at the head of Model/Exec.lean) and the part that is fan2go's: the decision logic of
  `SafeCmdExecution` (permission test first, nothing started when it fails, no success after the deadline, output dropped
  on any error, newline trimming), which is the translated code. The theorems say that the two parts compose to the model.
  Core Lean only.
-/
import Fan2go.Generated.Trans3
import Fan2go.Model.Exec
namespace Fan2go

/-- `cmd.Output()` of os/exec with `WaitDelay = 200 ms`, per behaviour of the process: (stdout, error, "the deadline has
    passed when Output returns"). On an `*exec.ExitError` `Output` still returns what was captured. -/
def rawOutput (beh : Beh) (timeout : Nat) : String × Option String × Bool :=
  if timeout = 0 then ("", some "context deadline exceeded", true)
  else
  match beh with
  | .startError => ("", some "fork/exec", false)
  | .exits code out => if code = 0 then (out, none, false) else (out, some "exit status", false)
  | .killedBySignal out => (out, some "signal", false)
  | .outlivesDeadline _ => ("", some "signal: killed", true)
  | .grandchildHoldsStdout out hold =>
    match hold with
    | .ms h =>
      if h < cmdWaitDelayMs then (out, none, decide (timeout ≤ h))
      else (out, some "exec: WaitDelay expired before I/O complete", decide (timeout ≤ cmdWaitDelayMs))
    | .forever => (out, some "exec: WaitDelay expired before I/O complete", decide (timeout ≤ cmdWaitDelayMs))

/-- what a call of `SafeCmdExecution` leaves behind: whether `cmd.Output()` was reached (`attempted`), the path the
    permission test was made on, and the path handed to `exec.CommandContext` -/
structure ExecSt where
  attempted : Bool := false
  checked : Option String := none
  started : Option String := none
  deriving DecidableEq, Repr

/-- the operations of `SafeCmdExecution`. `baseOf` is `filepath.Base`, `look` is `exec.LookPath` (`none` = not found in
    `$PATH`); the permission test's verdict `perm` is that of the file the test is made on. -/
def execOps (baseOf : String → String) (look : String → Option String) (perm : PermOut) (beh : Beh) (timeout : Nat) :
    Generated3.ExecOps ExecSt where
  base := fun p s => (.ok (baseOf p), s)
  lookPath := fun p s => (.ok (match look p with | some r => (r, none) | none => ("", some "not found")), s)
  commandContext := fun p s => (.ok (), { s with started := some p })
  checkPerm := fun p s =>
    (match perm with
     | .ok (.ok ()) => .ok (true, none)
     | .ok (.error e) => .ok (false, some e)
     | .err e => .err e
     | .panic p => .panic p, { s with checked := some p })
  cmdOutput := fun s => (.ok ((rawOutput beh timeout).1, (rawOutput beh timeout).2.1), { s with attempted := true })
  ctxErr := fun s => (.ok (if (rawOutput beh timeout).2.2 then some "context deadline exceeded" else none), s)
  stringsTrim := fun str cut s => (if cut = "\n" then .ok (trimNl str) else .panic "trim-cutset", s)

/-- the path the call works with: a bare command name is replaced by what `$PATH` yields, when it yields something -/
def execPath (baseOf : String → String) (look : String → Option String) (exe : String) : String :=
  if baseOf exe = exe then (match look exe with | some r => r | none => exe) else exe

/-- Go's `(string, error)` for the model's outcome of a call that got past the permission test -/
def execPair : Except String String → String × Option String
  | .ok s => (s, none)
  | .error m => ("", some m)

def execResGo : Res (Except String String) → Res (String × Option String)
  | .ok r => .ok (execPair r)
  | .err e => .err e
  | .panic p => .panic p



variable (baseOf : String → String) (look : String → Option String)

theorem trans3_util_SafeCmdExecution_checked (indef : Int) (beh : Beh) (timeout : Nat) (exe : String) (args : Array String) (t : Int) :
    Generated3.util_SafeCmdExecution indef (execOps baseOf look (.ok (.ok ())) beh timeout) exe args t {}
      = (execResGo (runCmd beh timeout).res,
         { attempted := true, checked := some (execPath baseOf look exe), started := some (execPath baseOf look exe) }) := by
  by_cases hb : baseOf exe = exe <;> cases hl : look exe <;> by_cases ht : timeout = 0 <;>
    first
    | (simp [Generated3.util_SafeCmdExecution, execOps, execPath, runCmd, rawOutput, execResGo, execPair, bind, GoM.bind', GoM.pure', pure, hb, hl, ht]; done)
    | (cases beh with
       | startError => simp [Generated3.util_SafeCmdExecution, execOps, execPath, runCmd, rawOutput, execResGo, execPair, bind, GoM.bind', GoM.pure', pure, hb, hl, ht]
       | exits code out => by_cases hc : code = 0 <;> simp [Generated3.util_SafeCmdExecution, execOps, execPath, runCmd, rawOutput, execResGo, execPair, bind, GoM.bind', GoM.pure', pure, hb, hl, ht, hc]
       | killedBySignal out => simp [Generated3.util_SafeCmdExecution, execOps, execPath, runCmd, rawOutput, execResGo, execPair, bind, GoM.bind', GoM.pure', pure, hb, hl, ht]
       | outlivesDeadline o => simp [Generated3.util_SafeCmdExecution, execOps, execPath, runCmd, rawOutput, execResGo, execPair, bind, GoM.bind', GoM.pure', pure, hb, hl, ht]
       | grandchildHoldsStdout out hold =>
         cases hold with
         | forever => by_cases h1 : timeout ≤ cmdWaitDelayMs <;> simp [Generated3.util_SafeCmdExecution, execOps, execPath, runCmd, rawOutput, execResGo, execPair, bind, GoM.bind', GoM.pure', pure, hb, hl, ht, h1]
         | ms h =>
           by_cases h1 : timeout ≤ cmdWaitDelayMs <;> by_cases h2 : h < cmdWaitDelayMs <;> by_cases h3 : h < timeout <;>
             simp [Generated3.util_SafeCmdExecution, execOps, execPath, runCmd, rawOutput, execResGo, execPair, bind, GoM.bind', GoM.pure', pure, hb, hl, ht, h1, h2, h3] <;> omega)

theorem trans3_util_SafeCmdExecution_refused (indef : Int) (e : String) (beh : Beh) (timeout : Nat) (exe : String) (args : Array String) (t : Int) :
    Generated3.util_SafeCmdExecution indef (execOps baseOf look (.ok (.error e)) beh timeout) exe args t {}
      = (.ok ("", some "cannot execute"), { attempted := false, checked := some (execPath baseOf look exe), started := none }) := by
  by_cases hb : baseOf exe = exe <;> cases hl : look exe <;>
    simp [Generated3.util_SafeCmdExecution, execOps, execPath, bind, GoM.bind', GoM.pure', pure, hb, hl]

/-- whatever the verdict: the file handed to `exec.CommandContext`, if any, is the file the permission test was made on -/
theorem trans3_exec_starts_what_it_checked (indef : Int) (perm : PermOut) (beh : Beh) (timeout : Nat) (exe : String) (args : Array String) (t : Int) :
    let s := (Generated3.util_SafeCmdExecution indef (execOps baseOf look perm beh timeout) exe args t {}).2
    s.started = none ∨ s.started = s.checked := by
  match perm with
  | .ok (.ok ()) =>
    rw [trans3_util_SafeCmdExecution_checked]; simp
  | .ok (.error e) =>
    rw [trans3_util_SafeCmdExecution_refused]; simp
  | .err e =>
    by_cases hb : baseOf exe = exe <;> cases hl : look exe <;>
      simp [Generated3.util_SafeCmdExecution, execOps, bind, GoM.bind', GoM.pure', pure, hb, hl]
  | .panic e =>
    by_cases hb : baseOf exe = exe <;> cases hl : look exe <;>
      simp [Generated3.util_SafeCmdExecution, execOps, bind, GoM.bind', GoM.pure', pure, hb, hl]

end Fan2go

#print axioms Fan2go.trans3_util_SafeCmdExecution_checked
#print axioms Fan2go.trans3_util_SafeCmdExecution_refused
#print axioms Fan2go.trans3_exec_starts_what_it_checked
