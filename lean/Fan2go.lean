import Fan2go.F64.Basic
import Fan2go.Model.Util
import Fan2go.Model.ControlLoop
import Fan2go.Model.Curves
import Fan2go.Model.Fan
import Fan2go.Model.Controller
